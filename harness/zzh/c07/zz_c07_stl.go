// Package c07: binary STL (C07).
package c07

import (
	"fmt"
	"math"

	"github.com/EliCDavis/polyform/formats/stl"
	"github.com/EliCDavis/polyform/modeling"
	zz "github.com/EliCDavis/polyform/zzverif"
	"github.com/EliCDavis/vector/vector3"
)

func sv3(name string) vector3.Float64 {
	return vector3.New(zz.Float64(name+".x"), zz.Float64(name+".y"), zz.Float64(name+".z"))
}

func symTriMesh(maxV, maxT int) modeling.Mesh {
	V := 1 + zz.Choose("V", maxV)
	T := zz.Choose("T", maxT+1)
	idx := make([]int, 3*T)
	for i := range idx {
		idx[i] = zz.Int(fmt.Sprintf("idx[%d]", i), 0, V-1)
	}
	pos := make([]vector3.Float64, V)
	for i := range pos {
		pos[i] = sv3(fmt.Sprintf("pos[%d]", i))
	}
	return modeling.NewTriangleMesh(idx).SetFloat3Attribute(modeling.PositionAttribute, pos)
}

func u32le(b []byte, off int) uint32 {
	return uint32(b[off]) | uint32(b[off+1])<<8 | uint32(b[off+2])<<16 | uint32(b[off+3])<<24
}

// write -> size law and count field -> read -> same triangles in order, float32-rounded corners.
func ZZ_C07_WriteRead() {
	m := symTriMesh(zz.Bound("V"), zz.Bound("T"))
	T := m.PrimitiveCount()
	zz.Reach("input")
	buf := zz.NewBuf()
	err := stl.WriteMesh(buf, m)
	zz.Assert(err == nil, "WriteMesh returned an error")
	zz.Assert(buf.Len() == 84+50*T, "size law: 84 + 50*n bytes")
	if buf.Len() >= 84 {
		zz.Assert(int(u32le(buf.B, 80)) == T, "count field equals the number of triangles")
	}
	back, err := stl.ReadMesh(buf.Reader(-1))
	zz.Assert(err == nil, "ReadMesh returned an error")
	if err != nil {
		return
	}
	zz.Assert(back.PrimitiveCount() == T, "same number of triangles read back")
	if back.PrimitiveCount() != T || T == 0 {
		return
	}
	zz.Reach("read-back")
	ip, ii := m.Float3Attribute(modeling.PositionAttribute), m.Indices()
	op, oi := back.Float3Attribute(modeling.PositionAttribute), back.Indices()
	for k := 0; k < 3*T; k++ {
		a, b := ip.At(ii.At(k)), op.At(oi.At(k))
		zz.Assert(b.X() == float64(float32(a.X())), "corner x is the float32 image")
		zz.Assert(b.Y() == float64(float32(a.Y())), "corner y is the float32 image")
		zz.Assert(b.Z() == float64(float32(a.Z())), "corner z is the float32 image")
	}
}

// a mesh without a position attribute writes a valid empty file
func ZZ_C07_NoPositions() {
	m := modeling.NewTriangleMesh([]int{})
	buf := zz.NewBuf()
	err := stl.WriteMesh(buf, m)
	zz.Reach("written")
	zz.Assert(err == nil, "WriteMesh(no positions) returned an error")
	zz.Assert(buf.Len() == 84, "empty file is 84 bytes")
	back, err := stl.ReadMesh(buf.Reader(-1))
	zz.Assert(err == nil, "ReadMesh(empty) returned an error")
	if err == nil {
		zz.Assert(back.PrimitiveCount() == 0, "empty file reads back as zero triangles")
	}
}

// any well-formed STL byte string -> Read -> Write reproduces the bytes (header, count, records)
func ZZ_C07_ReadWrite() {
	T := zz.Choose("T", zz.Bound("T")+1)
	file := zz.Bytes("file", 84+50*T)
	zz.Assume(int(u32le(file, 80)) == T)
	zz.Reach("input")
	in := &zz.Buf{B: file, Limit: -1}
	bin, err := stl.Read(in)
	zz.Assert(err == nil, "Read of a well-formed file failed")
	if err != nil {
		return
	}
	zz.Assert(len(bin.Triangles) == T, "Read returns every record")
	out := zz.NewBuf()
	err = stl.Write(out, *bin)
	zz.Assert(err == nil, "Write failed")
	zz.Assert(out.Len() == len(file), "Read then Write: same length")
	if out.Len() == len(file) {
		for i := range file {
			zz.Assert(out.B[i] == file[i], "Read then Write reproduces the bytes")
		}
	}
}

func putF32(b []byte, off int, f float32) {
	u := math.Float32bits(f)
	b[off], b[off+1], b[off+2], b[off+3] = byte(u), byte(u>>8), byte(u>>16), byte(u>>24)
}

func getF32(b []byte, off int) float32 { return math.Float32frombits(u32le(b, off)) }

// reading facet normals: a stored non-zero normal is returned as is; a zero normal is replaced by the unit
// geometric normal (v2-v1)x(v3-v1). The normal bytes of every record are symbolic (so which facets store a
// normal, and in which order they come, is decided by the solver); the vertices are a concrete triangle per
// record.
func ZZ_C07_ReadNormals() {
	T := 1 + zz.Choose("T", zz.Bound("T"))
	file := make([]byte, 84+50*T)
	file[80] = byte(T)
	tris := [][3][3]float32{
		{{0, 0, 0}, {1, 0, 0}, {0, 1, 0}}, // normal +z
		{{0, 0, 0}, {0, 1, 0}, {0, 0, 2}}, // normal +x
		{{1, 1, 1}, {1, 1, 3}, {4, 1, 1}}, // normal +y
	}
	geo := [][3]float64{{0, 0, 1}, {1, 0, 0}, {0, 1, 0}}
	nb := zz.Bytes("normals", 12*T)
	for t := 0; t < T; t++ {
		off := 84 + 50*t
		copy(file[off:off+12], nb[12*t:12*t+12])
		for v := 0; v < 3; v++ {
			for c := 0; c < 3; c++ {
				putF32(file, off+12+12*v+4*c, tris[t%3][v][c])
			}
		}
	}
	// stored normals are finite
	for t := 0; t < T; t++ {
		for c := 0; c < 3; c++ {
			f := getF32(nb, 12*t+4*c)
			zz.Assume(f == f)
			zz.Assume(f < 1e30 && f > -1e30)
		}
	}
	zz.Reach("input")
	m, err := stl.ReadMesh(&zz.Buf{B: file, Limit: -1})
	zz.Assert(err == nil, "ReadMesh failed on a well-formed file")
	if err != nil {
		return
	}
	anyStored := false
	stored := make([]bool, T)
	for t := 0; t < T; t++ {
		x, y, z := getF32(nb, 12*t), getF32(nb, 12*t+4), getF32(nb, 12*t+8)
		stored[t] = !(x == 0 && y == 0 && z == 0)
		anyStored = anyStored || stored[t]
	}
	if !anyStored {
		// no facet stores a normal: the mesh may omit the attribute; nothing more to compare
		zz.Reach("none-stored")
		return
	}
	zz.Assert(m.HasFloat3Attribute(modeling.NormalAttribute), "normals are reported when some facet stores one")
	if !m.HasFloat3Attribute(modeling.NormalAttribute) {
		return
	}
	n, idx := m.Float3Attribute(modeling.NormalAttribute), m.Indices()
	for t := 0; t < T; t++ {
		for c := 0; c < 3; c++ {
			g := n.At(idx.At(3*t + c))
			if stored[t] {
				zz.Assert(g.X() == float64(getF32(nb, 12*t)) && g.Y() == float64(getF32(nb, 12*t+4)) && g.Z() == float64(getF32(nb, 12*t+8)), "a stored facet normal is returned for all three corners")
			} else {
				w := geo[t%3]
				zz.Assert(g.X() == w[0] && g.Y() == w[1] && g.Z() == w[2], "a facet without a stored normal gets the unit geometric normal")
			}
		}
	}
	zz.Reach("checked")
}

// writing facet normals: the normalised mean of the three corner normals (corner normals from a concrete
// palette, assignment and indices chosen symbolically by enumeration)
func ZZ_C07_WriteNormals() {
	pal := []vector3.Float64{vector3.New(0., 0., 1.), vector3.New(1., 0., 0.), vector3.New(0., 3., 4.), vector3.New(-1., -2., 2.)}
	V := 3
	pos := []vector3.Float64{vector3.New(0., 0., 0.), vector3.New(1., 0., 0.), vector3.New(0., 1., 0.)}
	nrm := make([]vector3.Float64, V)
	for i := range nrm {
		nrm[i] = pal[zz.Choose(fmt.Sprintf("n%d", i), len(pal))]
	}
	idx := []int{zz.Choose("i0", V), zz.Choose("i1", V), zz.Choose("i2", V)}
	m := modeling.NewTriangleMesh(idx).SetFloat3Attribute(modeling.PositionAttribute, pos).SetFloat3Attribute(modeling.NormalAttribute, nrm)
	zz.Reach("input")
	buf := zz.NewBuf()
	err := stl.WriteMesh(buf, m)
	zz.Assert(err == nil && buf.Len() == 134, "one record written")
	if err != nil || buf.Len() != 134 {
		return
	}
	s := nrm[idx[0]].Add(nrm[idx[1]]).Add(nrm[idx[2]])
	l := math.Sqrt(s.X()*s.X() + s.Y()*s.Y() + s.Z()*s.Z())
	if l < 1e-9 {
		return // opposite normals cancel: no direction to compare
	}
	for c := 0; c < 3; c++ {
		got := float64(getF32(buf.B, 84+4*c))
		want := s.Component(c) / l
		zz.Assert(got-want <= 1e-6 && want-got <= 1e-6, "facet normal = normalised mean of the corner normals")
	}
}
