// Package c07: binary STL (C07).
package c07

import (
	"fmt"

	"github.com/EliCDavis/polyform/formats/stl"
	"github.com/EliCDavis/polyform/modeling"
	zz "github.com/EliCDavis/polyform/zzverif"
	"github.com/EliCDavis/vector/vector3"
)

func sv3(name string) vector3.Float64 {
	return vector3.New(zz.Float64(name+".x"), zz.Float64(name+".y"), zz.Float64(name+".z"))
}

func symTriMesh(maxV, maxT int) modeling.Mesh {
	V := 1 + zz.Choose("V", maxV)
	T := zz.Choose("T", maxT+1)
	idx := make([]int, 3*T)
	for i := range idx {
		idx[i] = zz.Int(fmt.Sprintf("idx[%d]", i), 0, V-1)
	}
	pos := make([]vector3.Float64, V)
	for i := range pos {
		pos[i] = sv3(fmt.Sprintf("pos[%d]", i))
	}
	return modeling.NewTriangleMesh(idx).SetFloat3Attribute(modeling.PositionAttribute, pos)
}

func u32le(b []byte, off int) uint32 {
	return uint32(b[off]) | uint32(b[off+1])<<8 | uint32(b[off+2])<<16 | uint32(b[off+3])<<24
}

// write -> size law and count field -> read -> same triangles in order, float32-rounded corners.
func ZZ_C07_WriteRead() {
	m := symTriMesh(zz.Bound("V"), zz.Bound("T"))
	T := m.PrimitiveCount()
	zz.Reach("input")
	buf := zz.NewBuf()
	err := stl.WriteMesh(buf, m)
	zz.Assert(err == nil, "WriteMesh returned an error")
	zz.Assert(buf.Len() == 84+50*T, "size law: 84 + 50*n bytes")
	if buf.Len() >= 84 {
		zz.Assert(int(u32le(buf.B, 80)) == T, "count field equals the number of triangles")
	}
	back, err := stl.ReadMesh(buf.Reader(-1))
	zz.Assert(err == nil, "ReadMesh returned an error")
	if err != nil {
		return
	}
	zz.Assert(back.PrimitiveCount() == T, "same number of triangles read back")
	if back.PrimitiveCount() != T || T == 0 {
		return
	}
	zz.Reach("read-back")
	ip, ii := m.Float3Attribute(modeling.PositionAttribute), m.Indices()
	op, oi := back.Float3Attribute(modeling.PositionAttribute), back.Indices()
	for k := 0; k < 3*T; k++ {
		a, b := ip.At(ii.At(k)), op.At(oi.At(k))
		zz.Assert(b.X() == float64(float32(a.X())), "corner x is the float32 image")
		zz.Assert(b.Y() == float64(float32(a.Y())), "corner y is the float32 image")
		zz.Assert(b.Z() == float64(float32(a.Z())), "corner z is the float32 image")
	}
}

// a mesh without a position attribute writes a valid empty file
func ZZ_C07_NoPositions() {
	m := modeling.NewTriangleMesh([]int{})
	buf := zz.NewBuf()
	err := stl.WriteMesh(buf, m)
	zz.Reach("written")
	zz.Assert(err == nil, "WriteMesh(no positions) returned an error")
	zz.Assert(buf.Len() == 84, "empty file is 84 bytes")
	back, err := stl.ReadMesh(buf.Reader(-1))
	zz.Assert(err == nil, "ReadMesh(empty) returned an error")
	if err == nil {
		zz.Assert(back.PrimitiveCount() == 0, "empty file reads back as zero triangles")
	}
}

// any well-formed STL byte string -> Read -> Write reproduces the bytes (header, count, records)
func ZZ_C07_ReadWrite() {
	T := zz.Choose("T", zz.Bound("T")+1)
	file := zz.Bytes("file", 84+50*T)
	zz.Assume(int(u32le(file, 80)) == T)
	zz.Reach("input")
	in := &zz.Buf{B: file, Limit: -1}
	bin, err := stl.Read(in)
	zz.Assert(err == nil, "Read of a well-formed file failed")
	if err != nil {
		return
	}
	zz.Assert(len(bin.Triangles) == T, "Read returns every record")
	out := zz.NewBuf()
	err = stl.Write(out, *bin)
	zz.Assert(err == nil, "Write failed")
	zz.Assert(out.Len() == len(file), "Read then Write: same length")
	if out.Len() == len(file) {
		for i := range file {
			zz.Assert(out.B[i] == file[i], "Read then Write reproduces the bytes")
		}
	}
}
