// Package c14: truncated files are rejected (C14), binary formats.
package c14

import (
	"fmt"

	"github.com/EliCDavis/polyform/formats/ply"
	"github.com/EliCDavis/polyform/formats/splat"
	"github.com/EliCDavis/polyform/formats/stl"
	"github.com/EliCDavis/polyform/modeling"
	zz "github.com/EliCDavis/polyform/zzverif"
	"github.com/EliCDavis/vector/vector2"
	"github.com/EliCDavis/vector/vector3"
	"github.com/EliCDavis/vector/vector4"
)

func sv3(name string) vector3.Float64 {
	return vector3.New(zz.Float64(name+".x"), zz.Float64(name+".y"), zz.Float64(name+".z"))
}

func triMesh(V, T int, uv bool) modeling.Mesh {
	idx := make([]int, 3*T)
	for i := range idx {
		idx[i] = zz.Int(fmt.Sprintf("idx[%d]", i), 0, V-1)
	}
	pos := make([]vector3.Float64, V)
	tex := make([]vector2.Float64, V)
	for i := 0; i < V; i++ {
		pos[i] = sv3(fmt.Sprintf("pos[%d]", i))
		tex[i] = vector2.New(zz.Float64(fmt.Sprintf("uv[%d].x", i)), zz.Float64(fmt.Sprintf("uv[%d].y", i)))
	}
	m := modeling.NewTriangleMesh(idx).SetFloat3Attribute(modeling.PositionAttribute, pos)
	if uv {
		m = m.SetFloat2Attribute(modeling.TexCoordAttribute, tex)
	}
	return m
}

// every strict prefix of a binary PLY file is rejected
func plyTrunc(format ply.Format, points bool) {
	var m modeling.Mesh
	if points {
		V := 1 + zz.Choose("V", zz.Bound("V"))
		pos := make([]vector3.Float64, V)
		for i := range pos {
			pos[i] = sv3(fmt.Sprintf("pos[%d]", i))
		}
		m = modeling.NewPointCloud(nil, map[string][]vector3.Float64{modeling.PositionAttribute: pos}, nil, nil, nil)
	} else {
		m = triMesh(1+zz.Choose("V", zz.Bound("V")), 1+zz.Choose("T", zz.Bound("T")), zz.Bool("uv"))
	}
	buf := zz.NewBuf()
	err := ply.Write(buf, m, format)
	zz.Assume(err == nil)
	L := buf.Len()
	cut := zz.Int("cut", 0, L-1)
	zz.Reach("file")
	back, err := ply.ReadMesh(buf.Reader(cut))
	zz.Assert(err != nil, "a strict prefix of a binary PLY file was accepted")
	if err == nil {
		zz.Assert(back.AttributeLength() < m.AttributeLength() || back.PrimitiveCount() < m.PrimitiveCount(), "truncated file returned the complete mesh")
	}
	zz.Reach("read")
}

func ZZ_C14_PlyLETriangles() { plyTrunc(ply.BinaryLittleEndian, false) }
func ZZ_C14_PlyBETriangles() { plyTrunc(ply.BinaryBigEndian, false) }
func ZZ_C14_PlyLEPoints()    { plyTrunc(ply.BinaryLittleEndian, true) }

func ZZ_C14_Stl() {
	m := triMesh(1+zz.Choose("V", zz.Bound("V")), zz.Choose("T", zz.Bound("T")+1), false)
	buf := zz.NewBuf()
	err := stl.WriteMesh(buf, m)
	zz.Assume(err == nil)
	cut := zz.Int("cut", 0, buf.Len()-1)
	zz.Reach("file")
	_, err = stl.ReadMesh(buf.Reader(cut))
	zz.Assert(err != nil, "a strict prefix of a binary STL file was accepted")
	zz.Reach("read")
}

// .splat is record streamed: a prefix yields exactly the splats fully contained, equal to the first records
func ZZ_C14_Splat() {
	n := 1 + zz.Choose("n", zz.Bound("N"))
	pos := make([]vector3.Float64, n)
	for i := range pos {
		pos[i] = sv3(fmt.Sprintf("pos[%d]", i))
	}
	zero3 := make([]vector3.Float64, n)
	m := modeling.NewPointCloud(
		map[string][]vector4.Float64{modeling.RotationAttribute: make([]vector4.Float64, n)},
		map[string][]vector3.Float64{modeling.PositionAttribute: pos, modeling.ScaleAttribute: zero3, modeling.FDCAttribute: zero3},
		nil, map[string][]float64{modeling.OpacityAttribute: make([]float64, n)}, nil)
	buf := zz.NewBuf()
	err := splat.Write(buf, m)
	zz.Assume(err == nil)
	cut := zz.Int("cut", 0, buf.Len()-1)
	zz.Reach("file")
	back, err := splat.Read(buf.Reader(cut))
	if err != nil {
		return // reporting an error is always acceptable
	}
	k := back.AttributeLength()
	zz.Assert(k*32 <= cut, "a splat that is not fully contained in the prefix was returned")
	zz.Assert((k+1)*32 > cut, "a splat fully contained in the prefix was dropped")
	if k > 0 && k <= n {
		bp := back.Float3Attribute(modeling.PositionAttribute)
		for i := 0; i < k; i++ {
			zz.Assert(bp.At(i).X() == float64(float32(pos[i].X())), "returned splat is not the record of the same index")
		}
	}
	zz.Reach("read")
}
