// Package c14: truncated files are rejected (C14), binary formats.
package c14

import (
	"bufio"
	"io"
	"fmt"
	"strconv"

	"github.com/EliCDavis/polyform/formats/ply"
	"github.com/EliCDavis/polyform/formats/pts"
	"github.com/EliCDavis/polyform/formats/splat"
	"github.com/EliCDavis/polyform/formats/stl"
	"github.com/EliCDavis/polyform/modeling"
	zz "github.com/EliCDavis/polyform/zzverif"
	"github.com/EliCDavis/vector/vector2"
	"github.com/EliCDavis/vector/vector3"
	"github.com/EliCDavis/vector/vector4"
)

func sv3(name string) vector3.Float64 {
	return vector3.New(zz.Float64(name+".x"), zz.Float64(name+".y"), zz.Float64(name+".z"))
}

func triMesh(V, T int, uv bool) modeling.Mesh {
	idx := make([]int, 3*T)
	for i := range idx {
		idx[i] = zz.Int(fmt.Sprintf("idx[%d]", i), 0, V-1)
	}
	pos := make([]vector3.Float64, V)
	tex := make([]vector2.Float64, V)
	for i := 0; i < V; i++ {
		pos[i] = sv3(fmt.Sprintf("pos[%d]", i))
		tex[i] = vector2.New(zz.Float64(fmt.Sprintf("uv[%d].x", i)), zz.Float64(fmt.Sprintf("uv[%d].y", i)))
	}
	m := modeling.NewTriangleMesh(idx).SetFloat3Attribute(modeling.PositionAttribute, pos)
	if uv {
		m = m.SetFloat2Attribute(modeling.TexCoordAttribute, tex)
	}
	return m
}

// every strict prefix of a binary PLY file is rejected
func plyTrunc(format ply.Format, points bool) { plyTruncVia(format, points, false) }

// the same through a bufio.Reader (what MeshReader.Load hands to the parser): a reader type the parser may treat
// specially must not change the verdict
func ZZ_C14_PlyLEPointsBufio() { plyTruncVia(ply.BinaryLittleEndian, true, true) }

func plyTruncVia(format ply.Format, points bool, buffered bool) {
	var m modeling.Mesh
	if points {
		V := 1 + zz.Choose("V", zz.Bound("V"))
		pos := make([]vector3.Float64, V)
		for i := range pos {
			pos[i] = sv3(fmt.Sprintf("pos[%d]", i))
		}
		m = modeling.NewPointCloud(nil, map[string][]vector3.Float64{modeling.PositionAttribute: pos}, nil, nil, nil)
	} else {
		m = triMesh(1+zz.Choose("V", zz.Bound("V")), 1+zz.Choose("T", zz.Bound("T")), zz.Bool("uv"))
	}
	buf := zz.NewBuf()
	err := ply.Write(buf, m, format)
	zz.Assume(err == nil)
	L := buf.Len()
	cut := zz.Int("cut", 0, L-1)
	zz.Reach("file")
	var in io.Reader = buf.Reader(cut)
	if buffered {
		in = bufio.NewReader(in)
	}
	back, err := ply.ReadMesh(in)
	zz.Assert(err != nil, "a strict prefix of a binary PLY file was accepted")
	if err == nil {
		zz.Assert(back.AttributeLength() < m.AttributeLength() || back.PrimitiveCount() < m.PrimitiveCount(), "truncated file returned the complete mesh")
	}
	zz.Reach("read")
}

func ZZ_C14_PlyLETriangles() { plyTrunc(ply.BinaryLittleEndian, false) }
func ZZ_C14_PlyBETriangles() { plyTrunc(ply.BinaryBigEndian, false) }
func ZZ_C14_PlyLEPoints()    { plyTrunc(ply.BinaryLittleEndian, true) }

func ZZ_C14_Stl() {
	m := triMesh(1+zz.Choose("V", zz.Bound("V")), zz.Choose("T", zz.Bound("T")+1), false)
	buf := zz.NewBuf()
	err := stl.WriteMesh(buf, m)
	zz.Assume(err == nil)
	cut := zz.Int("cut", 0, buf.Len()-1)
	zz.Reach("file")
	_, err = stl.ReadMesh(buf.Reader(cut))
	zz.Assert(err != nil, "a strict prefix of a binary STL file was accepted")
	zz.Reach("read")
}

// .splat is record streamed: a prefix yields exactly the splats fully contained, equal to the first records
func ZZ_C14_Splat() {
	n := 1 + zz.Choose("n", zz.Bound("N"))
	pos := make([]vector3.Float64, n)
	for i := range pos {
		pos[i] = sv3(fmt.Sprintf("pos[%d]", i))
	}
	zero3 := make([]vector3.Float64, n)
	m := modeling.NewPointCloud(
		map[string][]vector4.Float64{modeling.RotationAttribute: make([]vector4.Float64, n)},
		map[string][]vector3.Float64{modeling.PositionAttribute: pos, modeling.ScaleAttribute: zero3, modeling.FDCAttribute: zero3},
		nil, map[string][]float64{modeling.OpacityAttribute: make([]float64, n)}, nil)
	buf := zz.NewBuf()
	err := splat.Write(buf, m)
	zz.Assume(err == nil)
	cut := zz.Int("cut", 0, buf.Len()-1)
	zz.Reach("file")
	back, err := splat.Read(buf.Reader(cut))
	if err != nil {
		return // reporting an error is always acceptable
	}
	k := back.AttributeLength()
	zz.Assert(k*32 <= cut, "a splat that is not fully contained in the prefix was returned")
	zz.Assert((k+1)*32 > cut, "a splat fully contained in the prefix was dropped")
	if k > 0 && k <= n {
		bp := back.Float3Attribute(modeling.PositionAttribute)
		for i := 0; i < k; i++ {
			zz.Assert(bp.At(i).X() == float64(float32(pos[i].X())), "returned splat is not the record of the same index")
		}
	}
	zz.Reach("read")
}

// ASCII PLY: the cut position ranges over every cell boundary - every byte of the (concrete) header and every
// token / separator of the body (numbers are opaque tokens). Without an error the reader must return the
// complete, correct mesh (only trailing framing was cut).
func plyASCIITrunc(points bool) {
	var m modeling.Mesh
	var tex []vector2.Float64
	V := 1 + zz.Choose("V", zz.Bound("V"))
	pos := make([]vector3.Float64, V)
	for i := range pos {
		pos[i] = vector3.New(float64(zz.Float32(fmt.Sprintf("pos[%d].x", i))), float64(zz.Float32(fmt.Sprintf("pos[%d].y", i))), float64(zz.Float32(fmt.Sprintf("pos[%d].z", i))))
	}
	if points {
		m = modeling.NewPointCloud(nil, map[string][]vector3.Float64{modeling.PositionAttribute: pos}, nil, nil, nil)
	} else {
		T := 1 + zz.Choose("T", zz.Bound("T"))
		idx := make([]int, 3*T)
		for i := range idx {
			idx[i] = zz.Int(fmt.Sprintf("idx[%d]", i), 0, V-1)
		}
		m = modeling.NewTriangleMesh(idx).SetFloat3Attribute(modeling.PositionAttribute, pos)
		if zz.Bound("UV") == 1 && zz.Bool("uv") {
			// per-face texture coordinate lists follow the vertex indices on every face line
			tex = make([]vector2.Float64, V)
			for i := range tex {
				tex[i] = vector2.New(float64(zz.Float32(fmt.Sprintf("uv[%d].x", i))), float64(zz.Float32(fmt.Sprintf("uv[%d].y", i))))
			}
			m = m.SetFloat2Attribute(modeling.TexCoordAttribute, tex)
		}
	}
	buf := zz.NewBuf()
	err := ply.Write(buf, m, ply.ASCII)
	zz.Assume(err == nil)
	hr := buf.Reader(-1)
	_, herr := ply.ReadHeader(hr)
	zz.Assume(herr == nil)
	header := hr.R // header bytes (= cells)
	cells := zz.CellCount(buf, header)
	cut := zz.Int("cut", 0, cells-1)
	zz.Reach("file")
	back, err := ply.ReadMesh(buf.ReaderAtCell(cut, header))
	zz.Reach("read")
	if err != nil {
		return
	}
	if tex != nil {
		// a mesh with per-face texture coordinates is unwelded by the reader: one vertex per corner
		zz.Assert(back.PrimitiveCount() == m.PrimitiveCount() && back.AttributeLength() == 3*m.PrimitiveCount(), "a truncated ascii PLY was accepted with missing or extra elements")
		if back.PrimitiveCount() != m.PrimitiveCount() || !back.HasFloat3Attribute(modeling.PositionAttribute) {
			return
		}
		bp, bi, mi := back.Float3Attribute(modeling.PositionAttribute), back.Indices(), m.Indices()
		for i := 0; i < mi.Len() && i < bi.Len(); i++ {
			g, w := bp.At(bi.At(i)), pos[mi.At(i)]
			zz.Assert(g.X() == w.X() && g.Y() == w.Y() && g.Z() == w.Z(), "a truncated ascii PLY returned a placeholder vertex for data that was not in the prefix")
		}
	} else {
		zz.Assert(back.AttributeLength() == V && back.PrimitiveCount() == m.PrimitiveCount(), "a truncated ascii PLY was accepted with missing or extra elements")
		if back.AttributeLength() != V || !back.HasFloat3Attribute(modeling.PositionAttribute) {
			return
		}
		bp := back.Float3Attribute(modeling.PositionAttribute)
		for i := 0; i < V; i++ {
			zz.Assert(bp.At(i).X() == pos[i].X() && bp.At(i).Y() == pos[i].Y() && bp.At(i).Z() == pos[i].Z(), "a truncated ascii PLY returned a placeholder vertex for data that was not in the prefix")
		}
	}
	if !points && tex == nil && back.PrimitiveCount() == m.PrimitiveCount() {
		bi, mi := back.Indices(), m.Indices()
		for i := 0; i < mi.Len(); i++ {
			zz.Assert(bi.At(i) == mi.At(i), "a truncated ascii PLY returned a face that was not in the prefix")
		}
	}
	if tex != nil && back.PrimitiveCount() == m.PrimitiveCount() {
		// the reader unwelds a mesh with per-face texture coordinates: compare corner by corner
		zz.Assert(back.HasFloat2Attribute(modeling.TexCoordAttribute), "a truncated ascii PLY was accepted without the texture coordinates of the complete file")
		if back.HasFloat2Attribute(modeling.TexCoordAttribute) {
			bt, bi, mi := back.Float2Attribute(modeling.TexCoordAttribute), back.Indices(), m.Indices()
			for i := 0; i < mi.Len() && i < bi.Len(); i++ {
				g, w := bt.At(bi.At(i)), tex[mi.At(i)]
				zz.Assert(g.X() == w.X() && g.Y() == w.Y(), "a truncated ascii PLY returned texture coordinates that were not in the prefix")
			}
		}
	}
}

func ZZ_C14_PlyASCIIPoints()    { plyASCIITrunc(true) }
func ZZ_C14_PlyASCIITriangles() { plyASCIITrunc(false) }

// PTS: "<count>\n" then one "x y z" line per point
func ZZ_C14_Pts() {
	n := 1 + zz.Choose("n", zz.Bound("N"))
	buf := zz.NewBuf()
	buf.WriteString(fmt.Sprintf("%d\n", n))
	pos := make([][3]float64, n)
	for i := 0; i < n; i++ {
		for c := 0; c < 3; c++ {
			pos[i][c] = zz.Float64(fmt.Sprintf("p%d.%d", i, c))
			if c > 0 {
				buf.WriteString(" ")
			}
			buf.B = strconv.AppendFloat(buf.B, pos[i][c], 'f', -1, 64)
		}
		buf.WriteString("\n")
	}
	cells := zz.CellCount(buf, 2)
	cut := zz.Int("cut", 0, cells-1)
	zz.Reach("file")
	back, err := pts.ReadPointCloud(buf.ReaderAtCell(cut, 2))
	zz.Reach("read")
	if err != nil {
		return
	}
	zz.Assert(back.AttributeLength() == n, "a truncated PTS file was accepted with a different number of points")
	if back.AttributeLength() != n {
		return
	}
	bp := back.Float3Attribute(modeling.PositionAttribute)
	for i := 0; i < n; i++ {
		zz.Assert(bp.At(i).X() == pos[i][0] && bp.At(i).Y() == pos[i][1] && bp.At(i).Z() == pos[i][2], "a truncated PTS file returned a placeholder point for a line that was not in the prefix")
	}
}
