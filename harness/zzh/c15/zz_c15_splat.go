// Package c15: .splat codec (C15).
package c15

import (
	"fmt"
	"math"

	"github.com/EliCDavis/polyform/formats/ply"
	"github.com/EliCDavis/polyform/formats/splat"
	"github.com/EliCDavis/polyform/modeling"
	zz "github.com/EliCDavis/polyform/zzverif"
	"github.com/EliCDavis/vector/vector3"
	"github.com/EliCDavis/vector/vector4"
)

func cloud(n int, pos []vector3.Float64, fdc []vector3.Float64, rot []vector4.Float64) modeling.Mesh {
	scale := make([]vector3.Float64, n)
	op := make([]float64, n)
	return modeling.NewPointCloud(
		map[string][]vector4.Float64{modeling.RotationAttribute: rot},
		map[string][]vector3.Float64{modeling.PositionAttribute: pos, modeling.ScaleAttribute: scale, modeling.FDCAttribute: fdc},
		nil,
		map[string][]float64{modeling.OpacityAttribute: op},
		nil)
}

// count, order, record length and exact float32 positions.
func ZZ_C15_SplatLayout() {
	n := zz.Choose("n", zz.Bound("N")+1)
	pos := make([]vector3.Float64, n)
	fdc := make([]vector3.Float64, n)
	rot := make([]vector4.Float64, n)
	for i := 0; i < n; i++ {
		pos[i] = vector3.New(zz.Float64(fmt.Sprintf("p%d.x", i)), zz.Float64(fmt.Sprintf("p%d.y", i)), zz.Float64(fmt.Sprintf("p%d.z", i)))
	}
	zz.Reach("input")
	buf := zz.NewBuf()
	err := splat.Write(buf, cloud(n, pos, fdc, rot))
	zz.Assert(err == nil, "splat.Write failed")
	zz.Assert(buf.Len() == 32*n, "one 32-byte record per splat")
	back, err := splat.Read(buf.Reader(-1))
	zz.Assert(err == nil, "splat.Read failed on a complete file")
	if err != nil {
		return
	}
	zz.Assert(back.AttributeLength() == n, "same number of splats")
	if back.AttributeLength() != n || n == 0 {
		return
	}
	zz.Reach("read-back")
	bp := back.Float3Attribute(modeling.PositionAttribute)
	for i := 0; i < n; i++ {
		zz.Assert(bp.At(i).X() == float64(float32(pos[i].X())), "position x is the exact float32 image, in order")
		zz.Assert(bp.At(i).Y() == float64(float32(pos[i].Y())), "position y is the exact float32 image, in order")
		zz.Assert(bp.At(i).Z() == float64(float32(pos[i].Z())), "position z is the exact float32 image, in order")
	}
}

// rotation components survive within one 8-bit step (1/128) for every value in [-1, 1].
func ZZ_C15_SplatRotation() {
	k := zz.Choose("component", 4)
	r := zz.Float64("r")
	zz.Assume(r >= -1)
	zz.Assume(r <= 1)
	comp := [4]float64{}
	comp[k] = r
	pos := []vector3.Float64{vector3.Zero[float64]()}
	fdc := []vector3.Float64{vector3.Zero[float64]()}
	rot := []vector4.Float64{vector4.New(comp[0], comp[1], comp[2], comp[3])}
	zz.Reach("input")
	buf := zz.NewBuf()
	err := splat.Write(buf, cloud(1, pos, fdc, rot))
	zz.Assert(err == nil, "splat.Write failed")
	back, err := splat.Read(buf.Reader(-1))
	zz.Assert(err == nil, "splat.Read failed")
	if err != nil || back.AttributeLength() != 1 {
		return
	}
	g := back.Float4Attribute(modeling.RotationAttribute).At(0).Component(k)
	d := g - r
	zz.Assert(d <= 1./128, "rotation component within one 8-bit step (too large)")
	zz.Assert(d >= -1./128, "rotation component within one 8-bit step (too small)")
}

// colour byte: within one step of clamp(c*SH_C0+0.5)*255, clamped to the displayable range.
func ZZ_C15_SplatColourByte() {
	c := zz.Float64("c")
	zz.Assume(c >= -8)
	zz.Assume(c <= 8)
	pos := []vector3.Float64{vector3.Zero[float64]()}
	fdc := []vector3.Float64{vector3.New(c, 0, 0)}
	rot := []vector4.Float64{vector4.Zero[float64]()}
	zz.Reach("input")
	buf := zz.NewBuf()
	err := splat.Write(buf, cloud(1, pos, fdc, rot))
	zz.Assert(err == nil, "splat.Write failed")
	if buf.Len() != 32 {
		return
	}
	b := float64(buf.B[24])
	ideal := math.Max(0, math.Min(1, c*splat.SH_C0+0.5)) * 255
	zz.Assert(b-ideal <= 1, "colour byte within one step of the clamped ideal (too large)")
	zz.Assert(ideal-b <= 1, "colour byte within one step of the clamped ideal (too small)")
}

// de-quantisation on read: every stored byte value (exhaustively, by forking over the 256 values of one
// symbolically chosen colour/opacity/rotation byte) decodes to the value the record layout defines.
func ZZ_C15_SplatReadDequant() {
	rec := make([]byte, 32)
	one := math.Float32bits(1) // scale = exp(0): log(1) = 0
	for k := 0; k < 3; k++ {
		rec[12+4*k], rec[13+4*k], rec[14+4*k], rec[15+4*k] = byte(one), byte(one>>8), byte(one>>16), byte(one>>24)
	}
	for k := 24; k < 32; k++ {
		rec[k] = 128
	}
	which := 24 + zz.Choose("byteIndex", 8)
	b := byte(zz.Choose("byteValue", 256))
	rec[which] = b
	zz.Reach("input")
	back, err := splat.Read(&zz.Buf{B: rec, Limit: -1})
	zz.Assert(err == nil, "splat.Read failed on one complete record")
	if err != nil || back.AttributeLength() != 1 {
		return
	}
	same := func(got, want float64, label string) {
		zz.Assert(math.Float64bits(got) == math.Float64bits(want), label)
	}
	col := back.Float3Attribute(modeling.FDCAttribute).At(0)
	for k := 0; k < 3; k++ {
		same(col.Component(k), ((float64(rec[24+k])/255.)-0.5)/splat.SH_C0, "colour byte de-quantises to ((b/255)-0.5)/SH_C0")
	}
	a := float64(rec[27]) / 255.
	same(back.Float1Attribute(modeling.OpacityAttribute).At(0), -math.Log((1/a)-1), "opacity byte de-quantises to the inverse sigmoid of b/255")
	rot := back.Float4Attribute(modeling.RotationAttribute).At(0)
	for k := 0; k < 4; k++ {
		same(rot.Component(k), (float64(rec[28+k])-128)/128, "rotation byte de-quantises to (b-128)/128")
	}
	zz.Reach("read")
}

// PLY splat export: SplatPly.Write then ply.ReadMesh preserves count, order and every splat attribute (position,
// normal, colour coefficients, scale, rotation, opacity, higher harmonics) at float32 precision.
func ZZ_C15_PlySplatExport() {
	n := zz.Choose("n", zz.Bound("N")+1)
	f := func(name string, i int) float64 { return zz.Float64(fmt.Sprintf("%s%d", name, i)) }
	v3 := func(name string, i int) vector3.Float64 {
		return vector3.New(f(name+".x", i), f(name+".y", i), f(name+".z", i))
	}
	pos, nrm, fdc, scl := make([]vector3.Float64, n), make([]vector3.Float64, n), make([]vector3.Float64, n), make([]vector3.Float64, n)
	rot := make([]vector4.Float64, n)
	op, r0, r44 := make([]float64, n), make([]float64, n), make([]float64, n)
	for i := 0; i < n; i++ {
		pos[i], nrm[i], fdc[i], scl[i] = v3("pos", i), v3("nrm", i), v3("fdc", i), v3("scl", i)
		rot[i] = vector4.New(f("rot.x", i), f("rot.y", i), f("rot.z", i), f("rot.w", i))
		op[i], r0[i], r44[i] = f("op", i), f("rest0_", i), f("rest44_", i)
	}
	v1 := map[string][]float64{modeling.OpacityAttribute: op}
	withRest := zz.Bool("higher harmonics present")
	if withRest {
		v1["f_rest_0"] = r0
		v1["f_rest_44"] = r44
	}
	v3s := map[string][]vector3.Float64{modeling.PositionAttribute: pos, modeling.ScaleAttribute: scl, modeling.FDCAttribute: fdc}
	withNormal := zz.Bool("normals present")
	if withNormal {
		v3s[modeling.NormalAttribute] = nrm
	}
	m := modeling.NewPointCloud(map[string][]vector4.Float64{modeling.RotationAttribute: rot}, v3s, nil, v1, nil)
	zz.Reach("input")
	buf := zz.NewBuf()
	err := ply.SplatPly{Mesh: m}.Write(buf)
	zz.Assert(err == nil, "SplatPly.Write failed")
	if err != nil {
		return
	}
	back, err := ply.ReadMesh(buf.Reader(-1))
	zz.Assert(err == nil, "ply.ReadMesh failed on the splat export")
	if err != nil {
		return
	}
	zz.Reach("read-back")
	zz.Assert(back.AttributeLength() == n, "ply splat export: number of splats preserved")
	if back.AttributeLength() != n || n == 0 {
		return
	}
	f32 := func(x float64) float64 { return float64(float32(x)) }
	same3 := func(attr string, want []vector3.Float64) {
		zz.Assert(back.HasFloat3Attribute(attr), "ply splat export: attribute present: "+attr)
		if !back.HasFloat3Attribute(attr) {
			return
		}
		got := back.Float3Attribute(attr)
		for i := 0; i < n; i++ {
			g := got.At(i)
			zz.Assert(g.X() == f32(want[i].X()) && g.Y() == f32(want[i].Y()) && g.Z() == f32(want[i].Z()), "ply splat export: "+attr+" of splat i is the float32 image of splat i")
		}
	}
	same1 := func(attr string, want []float64) {
		zz.Assert(back.HasFloat1Attribute(attr), "ply splat export: attribute present: "+attr)
		if !back.HasFloat1Attribute(attr) {
			return
		}
		got := back.Float1Attribute(attr)
		for i := 0; i < n; i++ {
			zz.Assert(got.At(i) == f32(want[i]), "ply splat export: "+attr+" of splat i is the float32 image of splat i")
		}
	}
	same3(modeling.PositionAttribute, pos)
	same3(modeling.FDCAttribute, fdc)
	same3(modeling.ScaleAttribute, scl)
	if withNormal {
		same3(modeling.NormalAttribute, nrm)
	}
	same1(modeling.OpacityAttribute, op)
	if withRest {
		same1("f_rest_0", r0)
		same1("f_rest_44", r44)
	}
	zz.Assert(back.HasFloat4Attribute(modeling.RotationAttribute), "ply splat export: rotation present")
	if back.HasFloat4Attribute(modeling.RotationAttribute) {
		got := back.Float4Attribute(modeling.RotationAttribute)
		for i := 0; i < n; i++ {
			g := got.At(i)
			zz.Assert(g.X() == f32(rot[i].X()) && g.Y() == f32(rot[i].Y()) && g.Z() == f32(rot[i].Z()) && g.W() == f32(rot[i].W()), "ply splat export: rotation of splat i is the float32 image of splat i")
		}
	}
}

// opacity byte: for every finite opacity (logit) the stored byte is within one 8-bit step of sigmoid(opacity)*255.
// math.Exp is a contract stub in the engine (non-negative, not NaN, bracketed by a table of the monotone function),
// so the saturated ends - sigmoid rounding to exactly 0 or 1 - are part of the explored range.
func ZZ_C15_SplatOpacityByte() {
	x := zz.Float64("opacity")
	pos := []vector3.Float64{vector3.Zero[float64]()}
	fdc := []vector3.Float64{vector3.Zero[float64]()}
	rot := []vector4.Float64{vector4.Zero[float64]()}
	scale := make([]vector3.Float64, 1)
	m := modeling.NewPointCloud(
		map[string][]vector4.Float64{modeling.RotationAttribute: rot},
		map[string][]vector3.Float64{modeling.PositionAttribute: pos, modeling.ScaleAttribute: scale, modeling.FDCAttribute: fdc},
		nil,
		map[string][]float64{modeling.OpacityAttribute: {x}},
		nil)
	zz.Reach("input")
	buf := zz.NewBuf()
	err := splat.Write(buf, m)
	zz.Assert(err == nil, "splat.Write failed")
	if buf.Len() != 32 {
		return
	}
	b := float64(buf.B[27])
	alpha := 1. / (1 + math.Exp(-x))
	ideal := alpha * 255
	zz.Assert(b-ideal <= 1, "opacity byte within one step of sigmoid(opacity)*255 (too large)")
	zz.Assert(ideal-b <= 1, "opacity byte within one step of sigmoid(opacity)*255 (too small)")
}
