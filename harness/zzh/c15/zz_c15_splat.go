// Package c15: .splat codec (C15).
package c15

import (
	"fmt"
	"math"

	"github.com/EliCDavis/polyform/formats/splat"
	"github.com/EliCDavis/polyform/modeling"
	zz "github.com/EliCDavis/polyform/zzverif"
	"github.com/EliCDavis/vector/vector3"
	"github.com/EliCDavis/vector/vector4"
)

func cloud(n int, pos []vector3.Float64, fdc []vector3.Float64, rot []vector4.Float64) modeling.Mesh {
	scale := make([]vector3.Float64, n)
	op := make([]float64, n)
	return modeling.NewPointCloud(
		map[string][]vector4.Float64{modeling.RotationAttribute: rot},
		map[string][]vector3.Float64{modeling.PositionAttribute: pos, modeling.ScaleAttribute: scale, modeling.FDCAttribute: fdc},
		nil,
		map[string][]float64{modeling.OpacityAttribute: op},
		nil)
}

// count, order, record length and exact float32 positions.
func ZZ_C15_SplatLayout() {
	n := zz.Choose("n", zz.Bound("N")+1)
	pos := make([]vector3.Float64, n)
	fdc := make([]vector3.Float64, n)
	rot := make([]vector4.Float64, n)
	for i := 0; i < n; i++ {
		pos[i] = vector3.New(zz.Float64(fmt.Sprintf("p%d.x", i)), zz.Float64(fmt.Sprintf("p%d.y", i)), zz.Float64(fmt.Sprintf("p%d.z", i)))
	}
	zz.Reach("input")
	buf := zz.NewBuf()
	err := splat.Write(buf, cloud(n, pos, fdc, rot))
	zz.Assert(err == nil, "splat.Write failed")
	zz.Assert(buf.Len() == 32*n, "one 32-byte record per splat")
	back, err := splat.Read(buf.Reader(-1))
	zz.Assert(err == nil, "splat.Read failed on a complete file")
	if err != nil {
		return
	}
	zz.Assert(back.AttributeLength() == n, "same number of splats")
	if back.AttributeLength() != n || n == 0 {
		return
	}
	zz.Reach("read-back")
	bp := back.Float3Attribute(modeling.PositionAttribute)
	for i := 0; i < n; i++ {
		zz.Assert(bp.At(i).X() == float64(float32(pos[i].X())), "position x is the exact float32 image, in order")
		zz.Assert(bp.At(i).Y() == float64(float32(pos[i].Y())), "position y is the exact float32 image, in order")
		zz.Assert(bp.At(i).Z() == float64(float32(pos[i].Z())), "position z is the exact float32 image, in order")
	}
}

// rotation components survive within one 8-bit step (1/128) for every value in [-1, 1].
func ZZ_C15_SplatRotation() {
	k := zz.Choose("component", 4)
	r := zz.Float64("r")
	zz.Assume(r >= -1)
	zz.Assume(r <= 1)
	comp := [4]float64{}
	comp[k] = r
	pos := []vector3.Float64{vector3.Zero[float64]()}
	fdc := []vector3.Float64{vector3.Zero[float64]()}
	rot := []vector4.Float64{vector4.New(comp[0], comp[1], comp[2], comp[3])}
	zz.Reach("input")
	buf := zz.NewBuf()
	err := splat.Write(buf, cloud(1, pos, fdc, rot))
	zz.Assert(err == nil, "splat.Write failed")
	back, err := splat.Read(buf.Reader(-1))
	zz.Assert(err == nil, "splat.Read failed")
	if err != nil || back.AttributeLength() != 1 {
		return
	}
	g := back.Float4Attribute(modeling.RotationAttribute).At(0).Component(k)
	d := g - r
	zz.Assert(d <= 1./128, "rotation component within one 8-bit step (too large)")
	zz.Assert(d >= -1./128, "rotation component within one 8-bit step (too small)")
}

// colour byte: within one step of clamp(c*SH_C0+0.5)*255, clamped to the displayable range.
func ZZ_C15_SplatColourByte() {
	c := zz.Float64("c")
	zz.Assume(c >= -8)
	zz.Assume(c <= 8)
	pos := []vector3.Float64{vector3.Zero[float64]()}
	fdc := []vector3.Float64{vector3.New(c, 0, 0)}
	rot := []vector4.Float64{vector4.Zero[float64]()}
	zz.Reach("input")
	buf := zz.NewBuf()
	err := splat.Write(buf, cloud(1, pos, fdc, rot))
	zz.Assert(err == nil, "splat.Write failed")
	if buf.Len() != 32 {
		return
	}
	b := float64(buf.B[24])
	ideal := math.Max(0, math.Min(1, c*splat.SH_C0+0.5)) * 255
	zz.Assert(b-ideal <= 1, "colour byte within one step of the clamped ideal (too large)")
	zz.Assert(ideal-b <= 1, "colour byte within one step of the clamped ideal (too small)")
}

// de-quantisation on read: every stored byte value (exhaustively, by forking over the 256 values of one
// symbolically chosen colour/opacity/rotation byte) decodes to the value the record layout defines.
func ZZ_C15_SplatReadDequant() {
	rec := make([]byte, 32)
	one := math.Float32bits(1) // scale = exp(0): log(1) = 0
	for k := 0; k < 3; k++ {
		rec[12+4*k], rec[13+4*k], rec[14+4*k], rec[15+4*k] = byte(one), byte(one>>8), byte(one>>16), byte(one>>24)
	}
	for k := 24; k < 32; k++ {
		rec[k] = 128
	}
	which := 24 + zz.Choose("byteIndex", 8)
	b := byte(zz.Choose("byteValue", 256))
	rec[which] = b
	zz.Reach("input")
	back, err := splat.Read(&zz.Buf{B: rec, Limit: -1})
	zz.Assert(err == nil, "splat.Read failed on one complete record")
	if err != nil || back.AttributeLength() != 1 {
		return
	}
	same := func(got, want float64, label string) {
		zz.Assert(math.Float64bits(got) == math.Float64bits(want), label)
	}
	col := back.Float3Attribute(modeling.FDCAttribute).At(0)
	for k := 0; k < 3; k++ {
		same(col.Component(k), ((float64(rec[24+k])/255.)-0.5)/splat.SH_C0, "colour byte de-quantises to ((b/255)-0.5)/SH_C0")
	}
	a := float64(rec[27]) / 255.
	same(back.Float1Attribute(modeling.OpacityAttribute).At(0), -math.Log((1/a)-1), "opacity byte de-quantises to the inverse sigmoid of b/255")
	rot := back.Float4Attribute(modeling.RotationAttribute).At(0)
	for k := 0; k < 4; k++ {
		same(rot.Component(k), (float64(rec[28+k])-128)/128, "rotation byte de-quantises to (b-128)/128")
	}
	zz.Reach("read")
}
