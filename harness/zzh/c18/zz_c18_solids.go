// Package c18: solid primitives are closed, outward facing and of the right volume (C18), decided over the reals.
package c18

import (
	"fmt"

	"github.com/EliCDavis/polyform/modeling"
	"github.com/EliCDavis/polyform/modeling/primitives"
	zz "github.com/EliCDavis/polyform/zzverif"
	"github.com/EliCDavis/vector/vector3"
)

func size(name string) float64 {
	x := zz.Float64(name)
	zz.Assume(x >= 0.001)
	zz.Assume(x <= 1000)
	return x
}

// merge coincident positions. Positions are (concrete unit direction) x (symbolic size); the generators close
// seams with sin(2*pi) = -2.4e-16 rather than 0, so "coincident" is decided with a relative tolerance.
func classes(pos []vector3.Float64) []int {
	cls := make([]int, len(pos))
	for i := range pos {
		cls[i] = i
		for j := 0; j < i; j++ {
			d := pos[i].Sub(pos[j])
			tol := 1e-9 * (1 + absf(pos[i].X()) + absf(pos[i].Y()) + absf(pos[i].Z()))
			if absf(d.X()) <= tol && absf(d.Y()) <= tol && absf(d.Z()) <= tol {
				cls[i] = cls[j]
				break
			}
		}
	}
	return cls
}

func absf(x float64) float64 {
	if x < 0 {
		return -x
	}
	return x
}

type solid struct {
	m   modeling.Mesh
	tag string
}

// closed + consistently oriented: every directed edge (between merged vertices) has exactly one opposite and
// occurs once; outward: the signed volume is positive; optional closed form for the volume.
func checkSolid(s solid, wantVolume float64, haveVolume bool) {
	pa := s.m.Float3Attribute(modeling.PositionAttribute)
	pos := make([]vector3.Float64, pa.Len())
	for i := range pos {
		pos[i] = pa.At(i)
	}
	cls := classes(pos)
	idx := s.m.Indices()
	T := idx.Len() / 3
	zz.Assert(idx.Len()%3 == 0 && T >= 4, s.tag+": a solid has at least four triangles")
	type edge struct{ a, b int }
	count := map[edge]int{}
	for t := 0; t < T; t++ {
		v := [3]int{cls[idx.At(3*t)], cls[idx.At(3*t+1)], cls[idx.At(3*t+2)]}
		zz.Assert(v[0] != v[1] && v[1] != v[2] && v[0] != v[2], s.tag+": no degenerate face")
		for k := 0; k < 3; k++ {
			count[edge{v[k], v[(k+1)%3]}]++
		}
	}
	for e, n := range count {
		zz.Assert(n == 1, s.tag+": every directed edge occurs exactly once")
		zz.Assert(count[edge{e.b, e.a}] == 1, s.tag+": every directed edge is matched by exactly one opposite edge (closed, consistently oriented)")
	}
	vol6 := 0.
	for t := 0; t < T; t++ {
		a, b, c := pos[idx.At(3*t)], pos[idx.At(3*t+1)], pos[idx.At(3*t+2)]
		vol6 += a.X()*(b.Y()*c.Z()-b.Z()*c.Y()) - a.Y()*(b.X()*c.Z()-b.Z()*c.X()) + a.Z()*(b.X()*c.Y()-b.Y()*c.X())
	}
	zz.Assert(vol6 > 0, s.tag+": faces point outward (positive enclosed volume)")
	if haveVolume {
		zz.AssertNear(vol6/6, wantVolume, s.tag+": enclosed volume equals the closed form")
	}
	if s.m.HasFloat3Attribute(modeling.NormalAttribute) {
		na := s.m.Float3Attribute(modeling.NormalAttribute)
		for t := 0; t < T; t++ {
			a, b, c := pos[idx.At(3*t)], pos[idx.At(3*t+1)], pos[idx.At(3*t+2)]
			fn := b.Sub(a).Cross(c.Sub(a))
			for k := 0; k < 3; k++ {
				n := na.At(idx.At(3*t + k))
				zz.Assert(n.X()*fn.X()+n.Y()*fn.Y()+n.Z()*fn.Z() > 0, s.tag+": vertex normals point to the outer side of every incident face")
			}
		}
	}
	zz.Reach("checked")
}

func ZZ_C18_Sphere() {
	r := size("radius")
	rows := 2 + zz.Choose("rows", zz.Bound("ROWS"))
	cols := 3 + zz.Choose("cols", zz.Bound("COLS"))
	zz.Reach("input")
	m := primitives.UVSphere(r, rows, cols)
	checkSolid(solid{m, fmt.Sprintf("UVSphere(%d,%d)", rows, cols)}, 0, false)
	// inscribed polyhedron: smaller than the ball, and not absurdly small
	pa, idx := m.Float3Attribute(modeling.PositionAttribute), m.Indices()
	vol6 := 0.
	for t := 0; t < idx.Len()/3; t++ {
		a, b, c := pa.At(idx.At(3*t)), pa.At(idx.At(3*t+1)), pa.At(idx.At(3*t+2))
		vol6 += a.X()*(b.Y()*c.Z()-b.Z()*c.Y()) - a.Y()*(b.X()*c.Z()-b.Z()*c.X()) + a.Z()*(b.X()*c.Y()-b.Y()*c.X())
	}
	ball := 4.1887902047863905 * r * r * r
	zz.Assert(vol6/6 < ball, "UVSphere: the inscribed polyhedron is smaller than the ball")
	for i := 0; i < pa.Len(); i++ {
		p := pa.At(i)
		zz.AssertNear(p.X()*p.X()+p.Y()*p.Y()+p.Z()*p.Z(), r*r, "UVSphere: every vertex lies on the sphere")
	}
}

func ZZ_C18_Cube() {
	w, h, d := size("width"), size("height"), size("depth")
	zz.Reach("input")
	c := primitives.Cube{Height: h, Width: w, Depth: d}
	if zz.Bool("welded") {
		checkSolid(solid{c.Welded(), "Cube.Welded"}, w*h*d, true)
	} else {
		checkSolid(solid{c.UnweldedQuads(), "Cube.UnweldedQuads"}, w*h*d, true)
	}
}

func ZZ_C18_Cylinder() {
	r, h := size("radius"), size("height")
	sides := 3 + zz.Choose("sides", zz.Bound("SIDES"))
	zz.Reach("input")
	m := primitives.Cylinder{Sides: sides, Height: h, Radius: r}.ToMesh()
	// prism over a regular n-gon: area = n/2 r^2 sin(2 pi / n)
	areas := map[int]float64{3: 1.299038105676658, 4: 2, 5: 2.377641290737884, 6: 2.598076211353316}
	checkSolid(solid{m, fmt.Sprintf("Cylinder(%d)", sides)}, areas[sides]*r*r*h, true)
}
