// Package c18: solid primitives are closed, outward facing and of the right volume (C18), decided over the reals.
package c18

import (
	"fmt"
	"math"

	"github.com/EliCDavis/polyform/modeling"
	"github.com/EliCDavis/polyform/modeling/primitives"
	zz "github.com/EliCDavis/polyform/zzverif"
	"github.com/EliCDavis/vector/vector2"
	"github.com/EliCDavis/vector/vector3"
)

func size(name string) float64 {
	x := zz.Float64(name)
	zz.Assume(x >= 1e-9)
	zz.Assume(x <= 1e9)
	return x
}

// a second size of the same solid: within a factor 1000 of the first (the merge tolerance is proportional to the
// overall extent, so a feature a billion times smaller than the solid would be merged away; stated outside the
// claim). Written as ratio x first size so that both inputs range over a box.
func sizeRelative(name string, first float64) float64 {
	k := zz.Float64(name + "/first size")
	zz.Assume(k >= 0.001)
	zz.Assume(k <= 1000)
	return k * first
}

// merge coincident positions. Positions are (concrete unit direction) x (symbolic size); the generators close
// seams with sin(2*pi) = -2.4e-16 rather than 0, so "coincident" is decided with a relative tolerance.
func classes(pos []vector3.Float64, scale float64) []int {
	cls := make([]int, len(pos))
	for i := range pos {
		cls[i] = i
		for j := 0; j < i; j++ {
			d := pos[i].Sub(pos[j])
			tol := 1e-9 * scale
			if absf(d.X()) <= tol && absf(d.Y()) <= tol && absf(d.Z()) <= tol {
				cls[i] = cls[j]
				break
			}
		}
	}
	return cls
}

func absf(x float64) float64 {
	if x < 0 {
		return -x
	}
	return x
}

type solid struct {
	m       modeling.Mesh
	tag     string
	scale   float64 // the solid's overall extent: coincidence is decided relative to it (tolerance proportional to magnitude)
	normals bool    // the property promises outward vertex normals for this primitive
}

// closed + consistently oriented: every directed edge (between merged vertices) has exactly one opposite and
// occurs once; outward: the signed volume is positive; optional closed form for the volume.
func checkSolid(s solid, wantVolume float64, haveVolume bool) {
	pa := s.m.Float3Attribute(modeling.PositionAttribute)
	pos := make([]vector3.Float64, pa.Len())
	for i := range pos {
		pos[i] = pa.At(i)
	}
	cls := classes(pos, s.scale)
	idx := s.m.Indices()
	T := idx.Len() / 3
	zz.Assert(idx.Len()%3 == 0 && T >= 4, s.tag+": a solid has at least four triangles")
	type edge struct{ a, b int }
	count := map[edge]int{}
	for t := 0; t < T; t++ {
		v := [3]int{cls[idx.At(3*t)], cls[idx.At(3*t+1)], cls[idx.At(3*t+2)]}
		zz.Assert(v[0] != v[1] && v[1] != v[2] && v[0] != v[2], s.tag+": no degenerate face")
		for k := 0; k < 3; k++ {
			count[edge{v[k], v[(k+1)%3]}]++
		}
	}
	for e, n := range count {
		zz.Assert(n == 1, s.tag+": every directed edge occurs exactly once")
		zz.Assert(count[edge{e.b, e.a}] == 1, s.tag+": every directed edge is matched by exactly one opposite edge (closed, consistently oriented)")
	}
	vol6 := 0.
	for t := 0; t < T; t++ {
		a, b, c := pos[idx.At(3*t)], pos[idx.At(3*t+1)], pos[idx.At(3*t+2)]
		vol6 += a.X()*(b.Y()*c.Z()-b.Z()*c.Y()) - a.Y()*(b.X()*c.Z()-b.Z()*c.X()) + a.Z()*(b.X()*c.Y()-b.Y()*c.X())
	}
	zz.Assert(vol6 > 0, s.tag+": faces point outward (positive enclosed volume)")
	if haveVolume {
		zz.AssertNear(vol6/6, wantVolume, s.tag+": enclosed volume equals the closed form")
	}
	if s.normals && s.m.HasFloat3Attribute(modeling.NormalAttribute) {
		na := s.m.Float3Attribute(modeling.NormalAttribute)
		for t := 0; t < T; t++ {
			a, b, c := pos[idx.At(3*t)], pos[idx.At(3*t+1)], pos[idx.At(3*t+2)]
			fn := b.Sub(a).Cross(c.Sub(a))
			for k := 0; k < 3; k++ {
				n := na.At(idx.At(3*t + k))
				zz.Assert(n.X()*fn.X()+n.Y()*fn.Y()+n.Z()*fn.Z() > 0, s.tag+": vertex normals point to the outer side of every incident face")
			}
		}
	}
	zz.Reach("checked")
}

// volume of the polyhedron inscribed in the unit UV lattice: the top/bottom fans are pyramids over regular n-gons,
// every band between two rings is a frustum of a regular n-gon pyramid (its side faces are planar trapezoids, so
// the way the generator splits them into triangles does not matter). Computed here from the parameters alone.
func ngonArea(n int) float64 { return 0.5 * float64(n) * math.Sin(2*math.Pi/float64(n)) }

func frustum(n int, rho1, rho2, h float64) float64 {
	return ngonArea(n) * h * (rho1*rho1 + rho1*rho2 + rho2*rho2) / 3
}

func unitSphereVolume(rows, cols int) float64 {
	v := 0.
	for i := 0; i < rows; i++ {
		p1, p2 := math.Pi*float64(i)/float64(rows), math.Pi*float64(i+1)/float64(rows)
		v += frustum(cols, math.Sin(p1), math.Sin(p2), math.Cos(p1)-math.Cos(p2))
	}
	return v
}

// hemisphere: rings at elevation pi/2 * i/rows above the equator (i = 0 .. rows-2), apex on top, flat cap below
func unitHemisphereVolume(rows, cols int) float64 {
	v := 0.
	for i := 0; i < rows-1; i++ {
		e1 := math.Pi / 2 * float64(i) / float64(rows)
		e2 := math.Pi / 2 * float64(i+1) / float64(rows)
		r2, y2 := math.Cos(e2), math.Sin(e2)
		if i == rows-2 {
			r2, y2 = 0, 1 // the apex closes the last band
		}
		v += frustum(cols, math.Cos(e1), r2, y2-math.Sin(e1))
	}
	return v
}

func ZZ_C18_Sphere() {
	r := size("radius")
	rows := 2 + zz.Choose("rows", zz.Bound("ROWS"))
	cols := 3 + zz.Choose("cols", zz.Bound("COLS"))
	unwelded := zz.Bool("unwelded")
	zz.Reach("input")
	var m modeling.Mesh
	tag := fmt.Sprintf("UVSphere(%d,%d)", rows, cols)
	if unwelded {
		m = primitives.UVSphereUnwelded(r, rows, cols)
		tag = fmt.Sprintf("UVSphereUnwelded(%d,%d)", rows, cols)
	} else {
		m = primitives.UVSphere(r, rows, cols)
	}
	checkSolid(solid{m, tag, r, !unwelded}, unitSphereVolume(rows, cols)*r*r*r, true)
	pa := m.Float3Attribute(modeling.PositionAttribute)
	for i := 0; i < pa.Len(); i++ {
		p := pa.At(i)
		zz.AssertNear(p.X()*p.X()+p.Y()*p.Y()+p.Z()*p.Z(), r*r, "UVSphere: every vertex lies on the sphere")
	}
}

func ZZ_C18_Hemisphere() {
	r := size("radius")
	rows := 2 + zz.Choose("rows", zz.Bound("ROWS"))
	cols := 3 + zz.Choose("cols", zz.Bound("COLS"))
	zz.Reach("input")
	m := primitives.Hemisphere{Radius: r, Capped: true}.UV(rows, cols)
	checkSolid(solid{m, fmt.Sprintf("Hemisphere(%d,%d)", rows, cols), r, false}, unitHemisphereVolume(rows, cols)*r*r*r, true)
	pa := m.Float3Attribute(modeling.PositionAttribute)
	for i := 0; i < pa.Len(); i++ {
		p := pa.At(i)
		zz.Assert(p.Y() >= -1e-9*r, "Hemisphere: no vertex below the cap plane")
		zz.Assert(p.X()*p.X()+p.Y()*p.Y()+p.Z()*p.Z() <= r*r*(1+1e-9), "Hemisphere: every vertex lies within the ball")
	}
}

func stripUVs(name string) *primitives.StripUVs {
	if !zz.Bool(name) {
		return nil
	}
	return &primitives.StripUVs{Start: vector2.New(0., 0.), End: vector2.New(1., 0.5), Width: 0.25}
}

func circleUVs(name string) *primitives.CircleUVs {
	if !zz.Bool(name) {
		return nil
	}
	return &primitives.CircleUVs{Center: vector2.New(0.5, 0.5), Radius: 0.5}
}

func ZZ_C18_Cube() {
	w := size("width")
	h, d := sizeRelative("height", w), sizeRelative("depth", w)
	zz.Reach("input")
	c := primitives.Cube{Height: h, Width: w, Depth: d}
	if zz.Bool("with uvs") {
		c.UVs = &primitives.CubeUVs{Top: stripUVs("top"), Bottom: stripUVs("bottom"), Left: stripUVs("left"), Right: stripUVs("right"), Front: stripUVs("front"), Back: stripUVs("back")}
	}
	scale := w + h + d
	if zz.Bool("welded") {
		checkSolid(solid{c.Welded(), "Cube.Welded", scale, true}, w*h*d, true)
	} else {
		checkSolid(solid{c.UnweldedQuads(), "Cube.UnweldedQuads", scale, true}, w*h*d, true)
	}
}

func ZZ_C18_Cylinder() {
	r := size("radius")
	h := sizeRelative("height", r)
	sides := 3 + zz.Choose("sides", zz.Bound("SIDES"))
	zz.Reach("input")
	c := primitives.Cylinder{Sides: sides, Height: h, Radius: r}
	if zz.Bool("with uvs") {
		c.UVs = &primitives.CylinderUVs{Top: circleUVs("top"), Bottom: circleUVs("bottom"), Side: stripUVs("side")}
	}
	m := c.ToMesh()
	// prism over a regular n-gon
	checkSolid(solid{m, fmt.Sprintf("Cylinder(%d)", sides), r + h, true}, ngonArea(sides)*r*r*h, true)
	pa := m.Float3Attribute(modeling.PositionAttribute)
	for i := 0; i < pa.Len(); i++ {
		p := pa.At(i)
		zz.AssertNear(absf(p.Y()), h/2, "Cylinder: every vertex lies on the top or bottom plane")
	}
}
