// Package c13 holds the harnesses for C13 (concurrent parameter updates and artifact reads are linearizable).
package c13

import (
	"encoding/json"
	"errors"
	"fmt"
	"io"
	gsync "sync"

	"github.com/EliCDavis/polyform/generator/artifact"
	"github.com/EliCDavis/polyform/generator/graph"
	"github.com/EliCDavis/polyform/generator/parameter"
	"github.com/EliCDavis/polyform/nodes"
	"github.com/EliCDavis/polyform/refutil"
	zz "github.com/EliCDavis/polyform/zzverif"
)

// C13 - concurrent parameter updates, parameter reads and artifact generation are linearizable.
//
// The Instance is built through its public API (graph.New + AddProducer; the reflective type factory that AddProducer
// feeds is stubbed in the engine - it is not involved in the three entry points under test). Two integer parameters a and b; a one-level node mid = 1 - a; producer "out" reads a
// directly, a through mid, and b (so a mixture of two states of a is visible inside one artifact); producer
// "out2" shares mid and b. The goroutines below are run by the engine's scheduler: every interleaving at
// synchronisation points within the preemption bound is explored, and the happens-before monitor reports any
// pair of conflicting accesses (node caches, parameter state, instance fields) not ordered by the lock.

type zzArt struct{ direct, viaMid, b int }

func (zzArt) Write(io.Writer) error { return nil }
func (zzArt) Mime() string          { return "application/x-zz" }

type zzMid struct{ In nodes.NodeOutput[int] }

// zzMidErrors makes the shared node report an error (together with its value) for negative inputs, as the loader
// nodes of the library do for unreadable input
var zzMidErrors = false

var errZZNegative = errors.New("negative input")

func (d zzMid) Process() (int, error) {
	x := d.In.Value()
	if zzMidErrors && x < 0 {
		return 1 - x, errZZNegative
	}
	return 1 - x, nil
}

type zzProd struct{ A, M, B nodes.NodeOutput[int] }

func (d zzProd) Process() (artifact.Artifact, error) {
	return zzArt{direct: d.A.Value(), viaMid: d.M.Value(), b: d.B.Value()}, nil
}

type zzProd2 struct{ M, B nodes.NodeOutput[int] }

func (d zzProd2) Process() (artifact.Artifact, error) {
	return zzArt{direct: 1 - d.M.Value(), viaMid: d.M.Value(), b: d.B.Value()}, nil
}

type zzWorld struct {
	inst   *graph.Instance
	idA    string
	idB    string
	a0, b0 int
}

func zzBuild() *zzWorld {
	w := &zzWorld{a0: zz.Int("a0", -50, 50), b0: zz.Int("b0", -50, 50)}
	a := &parameter.Value[int]{Name: "a", DefaultValue: w.a0}
	b := &parameter.Value[int]{Name: "b", DefaultValue: w.b0}
	mid := nodes.NewStruct[zzMid, int](zzMid{In: a.Out()})
	prod := nodes.NewStruct[zzProd, artifact.Artifact](zzProd{A: a.Out(), M: mid.Out(), B: b.Out()})
	prod2 := nodes.NewStruct[zzProd2, artifact.Artifact](zzProd2{M: mid.Out(), B: b.Out()})
	w.inst = graph.New(&refutil.TypeFactory{})
	w.inst.AddProducer("out", prod.Out())
	w.inst.AddProducer("out2", prod2.Out())
	w.idA, w.idB = w.inst.NodeId(a), w.inst.NodeId(b)
	zz.Assert(w.idA != "" && w.idB != "" && w.idA != w.idB, "parameters have distinct ids")
	return w
}

func zzArtOf(x artifact.Artifact) zzArt {
	r, ok := x.(zzArt)
	zz.Assert(ok, "artifact has the producer's type")
	return r
}

func zzIntOf(data []byte) int {
	var v int
	err := json.Unmarshal(data, &v)
	zz.Assert(err == nil, "parameter data decodes")
	return v
}

// one of the states of the sequential order of the updates: (a1,b0) -> (a2,b0) -> (a2,b2)
func zzOneState(r zzArt, a1, a2, b0, b2 int, tag string) {
	zz.Assert(r.viaMid == 1-r.direct, tag+": the artifact mixes two states of one parameter")
	s0 := r.direct == a1 && r.b == b0
	s1 := r.direct == a2 && r.b == b0
	s2 := r.direct == a2 && r.b == b2
	zz.Assert(s0 || s1 || s2, tag+": the artifact is not a snapshot of any state in the order of the updates")
}

// ZZ_C13_UpdateVsArtifact: one client updates a then b, another generates the artifact, concurrently.
func ZZ_C13_UpdateVsArtifact() {
	w := zzBuild()
	a1, a2, b2 := zz.Int("a1", -50, 50), zz.Int("a2", -50, 50), zz.Int("b2", -50, 50)
	// an update that completed before anything else starts: the default a0 must never be seen again
	ok, err := w.inst.UpdateParameter(w.idA, zz.JSONMsg(a1))
	zz.Assert(ok && err == nil, "update accepted")
	if zz.Bound("WARM") == 1 {
		// caches filled before the concurrent phase
		zzOneState(zzArtOf(w.inst.Artifact("out")), a1, a1, w.b0, w.b0, "warm-up read")
	}
	zz.Reach("built")
	var wg gsync.WaitGroup
	var r zzArt
	wg.Add(2)
	go func() {
		defer wg.Done()
		w.inst.UpdateParameter(w.idA, zz.JSONMsg(a2))
		w.inst.UpdateParameter(w.idB, zz.JSONMsg(b2))
	}()
	go func() {
		defer wg.Done()
		r = zzArtOf(w.inst.Artifact("out"))
	}()
	wg.Wait()
	zz.Reach("joined")
	zzOneState(r, a1, a2, w.b0, b2, "concurrent read")
	// everything completed: the next read must see the final state
	f := zzArtOf(w.inst.Artifact("out"))
	zz.Assert(f.direct == a2 && f.viaMid == 1-a2 && f.b == b2, "read after all updates completed is older than a completed update")
	zz.Assert(zzIntOf(w.inst.ParameterData(w.idA)) == a2, "parameter read after all updates completed")
}

// ZZ_C13_ThreeClients: updater, artifact reader, and a client that reads a parameter and then the second
// producer (which shares the intermediate node with the first).
func ZZ_C13_ThreeClients() {
	w := zzBuild()
	a1, a2, b2 := zz.Int("a1", -50, 50), zz.Int("a2", -50, 50), zz.Int("b2", -50, 50)
	ok, err := w.inst.UpdateParameter(w.idA, zz.JSONMsg(a1))
	zz.Assert(ok && err == nil, "update accepted")
	zz.Reach("built")
	var wg gsync.WaitGroup
	var r, r3 zzArt
	var d int
	wg.Add(3)
	go func() {
		defer wg.Done()
		w.inst.UpdateParameter(w.idA, zz.JSONMsg(a2))
		w.inst.UpdateParameter(w.idB, zz.JSONMsg(b2))
	}()
	go func() {
		defer wg.Done()
		r = zzArtOf(w.inst.Artifact("out"))
	}()
	go func() {
		defer wg.Done()
		d = zzIntOf(w.inst.ParameterData(w.idA))
		r3 = zzArtOf(w.inst.Artifact("out2"))
	}()
	wg.Wait()
	zz.Reach("joined")
	zzOneState(r, a1, a2, w.b0, b2, "concurrent read")
	zzOneState(r3, a1, a2, w.b0, b2, "concurrent read of the second producer")
	zz.Assert(d == a1 || d == a2, "parameter read returns a value that was current")
	// program order of the third client: once it saw the update of a, its later artifact cannot predate it
	zz.Assert(d != a2 || r3.direct == a2, "artifact older than a parameter value the same client had already read")
	f := zzArtOf(w.inst.Artifact("out2"))
	zz.Assert(f.direct == a2 && f.b == b2, "read after all updates completed is older than a completed update")
}

// ZZ_C13_SequentialShared: the degenerate schedule in which every call completes before the next begins - each
// artifact must be the snapshot of the parameter values at that moment, for both producers sharing the
// intermediate node (which reports an error for negative inputs).
func ZZ_C13_SequentialShared() {
	zzMidErrors = true
	w := zzBuild()
	zz.Reach("built")
	a, b := w.a0, w.b0
	n := zz.Bound("STEPS")
	for i := 0; i < n; i++ {
		switch zz.Choose(fmt.Sprintf("op%d", i), 4) {
		case 0:
			a = zz.Int(fmt.Sprintf("a%d", i), -50, 50)
			w.inst.UpdateParameter(w.idA, zz.JSONMsg(a))
		case 1:
			b = zz.Int(fmt.Sprintf("b%d", i), -50, 50)
			w.inst.UpdateParameter(w.idB, zz.JSONMsg(b))
		case 2:
			zzOneState(zzArtOf(w.inst.Artifact("out")), a, a, b, b, fmt.Sprintf("step %d: sequential read", i))
		case 3:
			zzOneState(zzArtOf(w.inst.Artifact("out2")), a, a, b, b, fmt.Sprintf("step %d: sequential read of the second producer", i))
		}
	}
	zzOneState(zzArtOf(w.inst.Artifact("out")), a, a, b, b, "final sequential read")
	zzOneState(zzArtOf(w.inst.Artifact("out2")), a, a, b, b, "final sequential read of the second producer")
	zz.Assert(zzIntOf(w.inst.ParameterData(w.idA)) == a, "parameter read returns the current value")
	zz.Reach("joined")
}

// ZZ_C13_TwoReaders: two clients generate the two artifacts at the same time, right after a completed update, so
// the intermediate node both producers share is outdated when they start. Whatever the interleaving, each artifact
// shows the updated state, the shared node is evaluated once for that state, and no interleaving races on its cache.
func ZZ_C13_TwoReaders() {
	w := zzBuild()
	a1 := zz.Int("a1", -50, 50)
	ok, err := w.inst.UpdateParameter(w.idA, zz.JSONMsg(a1))
	zz.Assert(ok && err == nil, "update accepted")
	zz.Reach("built")
	var wg gsync.WaitGroup
	var r1, r2 zzArt
	wg.Add(2)
	go func() {
		defer wg.Done()
		r1 = zzArtOf(w.inst.Artifact("out"))
	}()
	go func() {
		defer wg.Done()
		r2 = zzArtOf(w.inst.Artifact("out2"))
	}()
	wg.Wait()
	zz.Reach("joined")
	zzOneState(r1, a1, a1, w.b0, w.b0, "first concurrent reader")
	zz.Assert(r2.viaMid == 1-a1, "second concurrent reader sees the completed update through the shared node")
}
