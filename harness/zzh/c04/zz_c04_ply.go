// Package c04: PLY write/read round trip (C04).
package c04

import (
	"fmt"

	"github.com/EliCDavis/polyform/formats/ply"
	"github.com/EliCDavis/polyform/modeling"
	zz "github.com/EliCDavis/polyform/zzverif"
	"github.com/EliCDavis/vector/vector2"
	"github.com/EliCDavis/vector/vector3"
	"github.com/EliCDavis/vector/vector4"
)

// F32Inputs: symbolic values are float32-representable doubles (used by the ascii harnesses)
var F32Inputs = false

func sf(name string) float64 {
	if F32Inputs {
		return float64(zz.Float32(name))
	}
	return zz.Float64(name)
}

func sv3(name string) vector3.Float64 {
	return vector3.New(sf(name+".x"), sf(name+".y"), sf(name+".z"))
}
func sv2(name string) vector2.Float64 { return vector2.New(sf(name+".x"), sf(name+".y")) }
func sv4(name string) vector4.Float64 {
	return vector4.New(sf(name+".x"), sf(name+".y"), sf(name+".z"), sf(name+".w"))
}

const (
	userV1 = "temperature"
	userV3 = "velocity"
	userV4 = "tangent4"
)

// configurations of attribute sets (they change the header text, so they are enumerated concretely)
const (
	cfgPos = iota
	cfgPosNormal
	cfgPosUV
	cfgPosNormalUV
	cfgPosUserV1
	cfgPosUserV3V4
	cfgCount
)

func symMesh(cfg int, topo modeling.Topology, maxV, maxT int) modeling.Mesh {
	V := 1 + zz.Choose("V", maxV)
	per, P := 3, 0
	if topo == modeling.PointTopology {
		per = 1
		P = V
	} else {
		P = zz.Choose("T", maxT+1)
	}
	idx := make([]int, per*P)
	for i := range idx {
		if topo == modeling.PointTopology {
			idx[i] = i
		} else {
			idx[i] = zz.Int(fmt.Sprintf("idx[%d]", i), 0, V-1)
		}
	}
	m := modeling.NewMesh(topo, idx)
	pos := make([]vector3.Float64, V)
	for i := range pos {
		pos[i] = sv3(fmt.Sprintf("pos[%d]", i))
	}
	m = m.SetFloat3Attribute(modeling.PositionAttribute, pos)
	if cfg == cfgPosNormal || cfg == cfgPosNormalUV {
		d := make([]vector3.Float64, V)
		for i := range d {
			d[i] = sv3(fmt.Sprintf("nrm[%d]", i))
		}
		m = m.SetFloat3Attribute(modeling.NormalAttribute, d)
	}
	if cfg == cfgPosUV || cfg == cfgPosNormalUV {
		d := make([]vector2.Float64, V)
		for i := range d {
			d[i] = sv2(fmt.Sprintf("uv[%d]", i))
		}
		m = m.SetFloat2Attribute(modeling.TexCoordAttribute, d)
	}
	if cfg == cfgPosUserV1 {
		d := make([]float64, V)
		for i := range d {
			d[i] = sf(fmt.Sprintf("t[%d]", i))
		}
		m = m.SetFloat1Attribute(userV1, d)
	}
	if cfg == cfgPosUserV3V4 {
		d := make([]vector3.Float64, V)
		e := make([]vector4.Float64, V)
		for i := range d {
			d[i] = sv3(fmt.Sprintf("vel[%d]", i))
			e[i] = sv4(fmt.Sprintf("tan[%d]", i))
		}
		m = m.SetFloat3Attribute(userV3, d).SetFloat4Attribute(userV4, e)
	}
	return m
}

func f32(x float64) float64 { return float64(float32(x)) }

// corner-wise comparison of every attribute at float32 precision
func sameAtF32(in, out modeling.Mesh, tag string) {
	ii, oi := in.Indices(), out.Indices()
	zz.Assert(ii.Len() == oi.Len(), tag+": corner count differs")
	if ii.Len() != oi.Len() {
		return
	}
	if ii.Len() == 0 {
		return // no corner, nothing to compare (the property is stated per primitive corner)
	}
	for _, a := range in.Float3Attributes() {
		name := a
		if a == userV3 {
			// a user-named float3 attribute is stored as three scalar properties name_0..2 and comes back
			// as the scalar attributes the file describes
			p := in.Float3Attribute(a)
			for c := 0; c < 3; c++ {
				sn := fmt.Sprintf("%s_%d", a, c)
				zz.Assert(out.HasFloat1Attribute(sn), tag+": scalar image of a user float3 attribute lost")
				if out.HasFloat1Attribute(sn) {
					q := out.Float1Attribute(sn)
					for k := 0; k < ii.Len(); k++ {
						zz.Assert(q.At(oi.At(k)) == f32(p.At(ii.At(k)).Component(c)), tag+": scalar image of a user float3 attribute is not the float32 image")
					}
				}
			}
			continue
		}
		zz.Assert(out.HasFloat3Attribute(name), tag+": float3 attribute lost: "+name)
		if !out.HasFloat3Attribute(name) {
			continue
		}
		p, q := in.Float3Attribute(a), out.Float3Attribute(name)
		for k := 0; k < ii.Len(); k++ {
			x, y := p.At(ii.At(k)), q.At(oi.At(k))
			zz.Assert(y.X() == f32(x.X()), tag+": "+a+".x of a corner is not the float32 image")
			zz.Assert(y.Y() == f32(x.Y()), tag+": "+a+".y of a corner is not the float32 image")
			zz.Assert(y.Z() == f32(x.Z()), tag+": "+a+".z of a corner is not the float32 image")
		}
	}
	for _, a := range in.Float2Attributes() {
		zz.Assert(out.HasFloat2Attribute(a), tag+": float2 attribute lost: "+a)
		if !out.HasFloat2Attribute(a) {
			continue
		}
		p, q := in.Float2Attribute(a), out.Float2Attribute(a)
		for k := 0; k < ii.Len(); k++ {
			x, y := p.At(ii.At(k)), q.At(oi.At(k))
			zz.Assert(y.X() == f32(x.X()), tag+": "+a+".x of a corner is not the float32 image")
			zz.Assert(y.Y() == f32(x.Y()), tag+": "+a+".y of a corner is not the float32 image")
		}
	}
	for _, a := range in.Float1Attributes() {
		zz.Assert(out.HasFloat1Attribute(a), tag+": float1 attribute lost: "+a)
		if !out.HasFloat1Attribute(a) {
			continue
		}
		p, q := in.Float1Attribute(a), out.Float1Attribute(a)
		for k := 0; k < ii.Len(); k++ {
			zz.Assert(q.At(oi.At(k)) == f32(p.At(ii.At(k))), tag+": "+a+" of a corner is not the float32 image")
		}
	}
}

func roundTripBinary(format ply.Format, topo modeling.Topology) {
	cfg := zz.Choose("cfg", cfgCount)
	m := symMesh(cfg, topo, zz.Bound("V"), zz.Bound("T"))
	zz.Reach("input")
	buf := zz.NewBuf()
	err := ply.Write(buf, m, format)
	zz.Assert(err == nil, "ply.Write returned an error")
	if err != nil {
		return
	}
	// header describes the body
	hr := buf.Reader(-1)
	hdr, err := ply.ReadHeader(hr)
	zz.Assert(err == nil, "ReadHeader failed on the writer's own output")
	if err != nil {
		return
	}
	zz.Reach("header")
	V := m.AttributeLength()
	zz.Assert(len(hdr.Elements) >= 1 && int(hdr.Elements[0].Count) == V, "header vertex count equals the number of vertices")
	recSize := 0
	for _, p := range hdr.Elements[0].Properties {
		recSize += p.(ply.ScalarProperty).Size()
	}
	want := hr.R + V*recSize
	if topo == modeling.TriangleTopology {
		zz.Assert(len(hdr.Elements) == 2 && int(hdr.Elements[1].Count) == m.PrimitiveCount(), "header face count equals the number of triangles")
		face := 1 + 12
		if m.HasFloat2Attribute(modeling.TexCoordAttribute) {
			face += 1 + 24
		}
		want += m.PrimitiveCount() * face
	}
	zz.Assert(buf.Len() == want, "file length = header + vertex records + face records")

	back, err := ply.ReadMesh(buf.Reader(-1))
	zz.Assert(err == nil, "ply.ReadMesh failed on the writer's own output")
	if err != nil {
		return
	}
	zz.Reach("read-back")
	zz.Assert(back.Topology() == topo, "topology preserved")
	zz.Assert(back.PrimitiveCount() == m.PrimitiveCount(), "primitive count preserved")
	sameAtF32(m, *back, "binary round trip")
}

// ASCII: numbers are opaque tokens (stdlib decimal round trip); values are float32-representable so that the
// file's double-precision text and the float32 image coincide
func roundTripASCII(topo modeling.Topology) {
	cfg := zz.Choose("cfg", cfgCount)
	m := symMesh(cfg, topo, zz.Bound("V"), zz.Bound("T"))
	zz.Reach("input")
	buf := zz.NewBuf()
	err := ply.Write(buf, m, ply.ASCII)
	zz.Assert(err == nil, "ply.Write(ascii) returned an error")
	if err != nil {
		return
	}
	hdr, err := ply.ReadHeader(buf.Reader(-1))
	zz.Assert(err == nil, "ReadHeader failed on the writer's own ascii output")
	if err != nil {
		return
	}
	zz.Reach("header")
	zz.Assert(len(hdr.Elements) >= 1 && int(hdr.Elements[0].Count) == m.AttributeLength(), "ascii header vertex count equals the number of vertices")
	if topo == modeling.TriangleTopology {
		zz.Assert(len(hdr.Elements) == 2 && int(hdr.Elements[1].Count) == m.PrimitiveCount(), "ascii header face count equals the number of triangles")
	}
	back, err := ply.ReadMesh(buf.Reader(-1))
	zz.Assert(err == nil, "ply.ReadMesh failed on the writer's own ascii output")
	if err != nil {
		return
	}
	zz.Reach("read-back")
	zz.Assert(back.Topology() == topo, "ascii: topology preserved")
	zz.Assert(back.PrimitiveCount() == m.PrimitiveCount(), "ascii: primitive count preserved")
	sameAtF32(m, *back, "ascii round trip")
}

func ZZ_C04_ASCIITriangles() { F32Inputs = true; roundTripASCII(modeling.TriangleTopology) }
func ZZ_C04_ASCIIPoints()    { F32Inputs = true; roundTripASCII(modeling.PointTopology) }

func ZZ_C04_BinaryLETriangles() { roundTripBinary(ply.BinaryLittleEndian, modeling.TriangleTopology) }
func ZZ_C04_BinaryBETriangles() { roundTripBinary(ply.BinaryBigEndian, modeling.TriangleTopology) }
func ZZ_C04_BinaryLEPoints()    { roundTripBinary(ply.BinaryLittleEndian, modeling.PointTopology) }

// custom MeshWriter configurations: which attributes are claimed by explicit property writers, the stored type of
// the position (float / double), write-unspecified on or off. Whatever the header announces has to match the body:
// the file must read back with the same corners.
func customWriter(format ply.Format) {
	withNormal := zz.Bool("mesh has normals")
	cfg := cfgPosUV
	if withNormal {
		cfg = cfgPosNormalUV
	}
	m := symMesh(cfg, modeling.TriangleTopology, zz.Bound("V"), zz.Bound("T"))
	double := zz.Bool("position stored as double")
	posType := ply.Float
	if double {
		posType = ply.Double
	}
	props := []ply.PropertyWriter{
		ply.Vector3PropertyWriter{ModelAttribute: modeling.PositionAttribute, Type: posType, PlyPropertyX: "x", PlyPropertyY: "y", PlyPropertyZ: "z"},
	}
	claimUV := zz.Bool("texcoord claimed by a property writer")
	if claimUV {
		props = append(props, ply.Vector2PropertyWriter{ModelAttribute: modeling.TexCoordAttribute, Type: ply.Float, PlyPropertyX: "s", PlyPropertyY: "t"})
	}
	claimNormal := zz.Bool("normal claimed by a property writer")
	if claimNormal {
		props = append(props, ply.Vector3PropertyWriter{ModelAttribute: modeling.NormalAttribute, Type: ply.Float, PlyPropertyX: "nx", PlyPropertyY: "ny", PlyPropertyZ: "nz"})
	}
	unspecified := zz.Bool("write unspecified properties")
	w := ply.MeshWriter{Format: format, Properties: props, WriteUnspecifiedProperties: unspecified}
	zz.Reach("input")
	buf := zz.NewBuf()
	err := w.Write(m, buf)
	zz.Assert(err == nil, "MeshWriter.Write returned an error")
	if err != nil {
		return
	}
	back, err := ply.ReadMesh(buf.Reader(-1))
	zz.Assert(err == nil, "ply.ReadMesh failed on the custom writer's output")
	if err != nil {
		return
	}
	zz.Reach("read-back")
	zz.Assert(back.Topology() == modeling.TriangleTopology, "custom writer: topology preserved")
	zz.Assert(back.PrimitiveCount() == m.PrimitiveCount(), "custom writer: primitive count preserved")
	ii, oi := m.Indices(), back.Indices()
	if ii.Len() != oi.Len() || ii.Len() == 0 {
		return
	}
	zz.Assert(back.HasFloat3Attribute(modeling.PositionAttribute), "custom writer: positions present")
	zz.Assert(back.HasFloat2Attribute(modeling.TexCoordAttribute), "custom writer: texture coordinates present")
	if !back.HasFloat3Attribute(modeling.PositionAttribute) || !back.HasFloat2Attribute(modeling.TexCoordAttribute) {
		return
	}
	p, q := m.Float3Attribute(modeling.PositionAttribute), back.Float3Attribute(modeling.PositionAttribute)
	u, v := m.Float2Attribute(modeling.TexCoordAttribute), back.Float2Attribute(modeling.TexCoordAttribute)
	for k := 0; k < ii.Len(); k++ {
		x, y := p.At(ii.At(k)), q.At(oi.At(k))
		if double && !F32Inputs {
			zz.Assert(y.X() == x.X() && y.Y() == x.Y() && y.Z() == x.Z(), "custom writer: a position stored as double comes back exactly")
		} else {
			zz.Assert(y.X() == f32(x.X()) && y.Y() == f32(x.Y()) && y.Z() == f32(x.Z()), "custom writer: position of a corner is the float32 image")
		}
		a, b := u.At(ii.At(k)), v.At(oi.At(k))
		zz.Assert(b.X() == f32(a.X()) && b.Y() == f32(a.Y()), "custom writer: texture coordinate of a corner is the float32 image")
	}
	if withNormal && claimNormal {
		zz.Assert(back.HasFloat3Attribute(modeling.NormalAttribute), "custom writer: normals present")
		if back.HasFloat3Attribute(modeling.NormalAttribute) {
			n, o := m.Float3Attribute(modeling.NormalAttribute), back.Float3Attribute(modeling.NormalAttribute)
			for k := 0; k < ii.Len(); k++ {
				x, y := n.At(ii.At(k)), o.At(oi.At(k))
				zz.Assert(y.X() == f32(x.X()) && y.Y() == f32(x.Y()) && y.Z() == f32(x.Z()), "custom writer: normal of a corner is the float32 image")
			}
		}
	}
	if withNormal && !claimNormal && unspecified {
		// an unclaimed float3 attribute is stored as three scalar properties name_0..2 and comes back as the
		// scalar attributes the file describes
		n := m.Float3Attribute(modeling.NormalAttribute)
		for c := 0; c < 3; c++ {
			sn := fmt.Sprintf("%s_%d", modeling.NormalAttribute, c)
			zz.Assert(back.HasFloat1Attribute(sn), "custom writer: scalar image of the unclaimed normal attribute present")
			if back.HasFloat1Attribute(sn) {
				o := back.Float1Attribute(sn)
				for k := 0; k < ii.Len(); k++ {
					zz.Assert(o.At(oi.At(k)) == f32(n.At(ii.At(k)).Component(c)), "custom writer: scalar image of the unclaimed normal is the float32 image")
				}
			}
		}
	}
}

func ZZ_C04_CustomWriterLE()    { customWriter(ply.BinaryLittleEndian) }
func ZZ_C04_CustomWriterBE()    { customWriter(ply.BinaryBigEndian) }
func ZZ_C04_CustomWriterASCII() { F32Inputs = true; customWriter(ply.ASCII) }

// two writes in a row through the package-level writer: the second file must not depend on the first. The first
// mesh carries a colour and no normal (its property writers are not a prefix of the writer table), the second
// carries normals.
func ZZ_C04_TwoWrites() {
	V := 1 + zz.Choose("V", zz.Bound("V"))
	mk := func(name string) ([]vector3.Float64, []vector3.Float64) {
		a, b := make([]vector3.Float64, V), make([]vector3.Float64, V)
		for i := 0; i < V; i++ {
			a[i], b[i] = sv3(fmt.Sprintf("%s.pos[%d]", name, i)), sv3(fmt.Sprintf("%s.aux[%d]", name, i))
		}
		return a, b
	}
	idx := make([]int, 3)
	for i := range idx {
		idx[i] = zz.Int(fmt.Sprintf("idx[%d]", i), 0, V-1)
	}
	p1, c1 := mk("first")
	for i := range c1 {
		c1[i] = vector3.New(0.25, 0.5, 0.75)
	}
	first := modeling.NewTriangleMesh(idx).SetFloat3Attribute(modeling.PositionAttribute, p1).SetFloat3Attribute(modeling.ColorAttribute, c1)
	p2, n2 := mk("second")
	second := modeling.NewTriangleMesh(idx).SetFloat3Attribute(modeling.PositionAttribute, p2).SetFloat3Attribute(modeling.NormalAttribute, n2)
	zz.Reach("input")
	format := ply.BinaryLittleEndian
	if zz.Bool("ascii") {
		format = ply.ASCII
	}
	zz.Assert(ply.Write(zz.NewBuf(), first, format) == nil, "first write failed")
	buf := zz.NewBuf()
	err := ply.Write(buf, second, format)
	zz.Assert(err == nil, "second write failed")
	if err != nil {
		return
	}
	back, err := ply.ReadMesh(buf.Reader(-1))
	zz.Assert(err == nil, "ply.ReadMesh failed on the second file")
	if err != nil {
		return
	}
	zz.Reach("read-back")
	zz.Assert(back.PrimitiveCount() == 1, "second file: primitive count preserved")
	sameAtF32(second, *back, "second of two writes")
}
