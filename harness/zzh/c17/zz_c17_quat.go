package c17

import (
	"github.com/EliCDavis/polyform/math/quaternion"
	zz "github.com/EliCDavis/polyform/zzverif"
	"github.com/EliCDavis/vector/vector3"
)

func vec(name string) vector3.Float64 {
	return vector3.New(zz.Float64(name+".x"), zz.Float64(name+".y"), zz.Float64(name+".z"))
}

func quat(name string) quaternion.Quaternion {
	return quaternion.New(vec(name+".v"), zz.Float64(name+".w"))
}

func norm2(v vector3.Float64) float64 { return v.X()*v.X() + v.Y()*v.Y() + v.Z()*v.Z() }

func qnorm2(q quaternion.Quaternion) float64 { return norm2(q.Dir()) + q.W()*q.W() }

// |Rotate(q,v)|^2 = |q|^4 |v|^2 : rotation by a unit quaternion preserves length.
func ZZ_C17_QuatRotateNorm() {
	q, v := quat("q"), vec("v")
	zz.Reach("inputs")
	r := q.Rotate(v)
	n := qnorm2(q)
	zz.AssertNear(norm2(r), n*n*norm2(v), "rotate-scales-length-by-|q|^2")
}

// Rotate(q1*q2, v) = Rotate(q1, Rotate(q2, v)).
func ZZ_C17_QuatCompose() {
	q1, q2, v := quat("q1"), quat("q2"), vec("v")
	zz.Reach("inputs")
	a := q1.Multiply(q2).Rotate(v)
	b := q1.Rotate(q2.Rotate(v))
	zz.AssertNear(a.X(), b.X(), "compose.x")
	zz.AssertNear(a.Y(), b.Y(), "compose.y")
	zz.AssertNear(a.Z(), b.Z(), "compose.z")
}
