package c17

import (
	zz "github.com/EliCDavis/polyform/zzverif"
)

// Deliberately false claim (wrong composition order): the pipeline must find a counterexample and
// confirm it natively. Used only by checks/selftest.json.
func ZZ_SelfTest_WrongCompose() {
	q1, q2, v := quat("q1"), quat("q2"), vec("v")
	a := q2.Multiply(q1).Rotate(v)
	b := q1.Rotate(q2.Rotate(v))
	zz.AssertNear(a.X(), b.X(), "wrong-compose.x")
}
