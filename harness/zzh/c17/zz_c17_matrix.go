package c17

import (
	"fmt"

	"github.com/EliCDavis/polyform/math/geometry"
	"github.com/EliCDavis/polyform/math/mat"
	"github.com/EliCDavis/polyform/math/quaternion"
	"github.com/EliCDavis/polyform/math/trs"
	zz "github.com/EliCDavis/polyform/zzverif"
	"github.com/EliCDavis/vector/vector3"
)

func symMat(name string) mat.Matrix4x4 {
	e := func(i, j int) float64 { return zz.Float64(fmt.Sprintf("%s[%d][%d]", name, i, j)) }
	return mat.Matrix4x4{
		X00: e(0, 0), X01: e(0, 1), X02: e(0, 2), X03: e(0, 3),
		X10: e(1, 0), X11: e(1, 1), X12: e(1, 2), X13: e(1, 3),
		X20: e(2, 0), X21: e(2, 1), X22: e(2, 2), X23: e(2, 3),
		X30: e(3, 0), X31: e(3, 1), X32: e(3, 2), X33: e(3, 3),
	}
}

// entries as [row][col], read through the named fields (row i, column j is Xij)
func entries(m mat.Matrix4x4) [4][4]float64 {
	return [4][4]float64{
		{m.X00, m.X01, m.X02, m.X03},
		{m.X10, m.X11, m.X12, m.X13},
		{m.X20, m.X21, m.X22, m.X23},
		{m.X30, m.X31, m.X32, m.X33},
	}
}

func ZZ_C17_MatrixAdd() {
	a, b := symMat("a"), symMat("b")
	zz.Reach("input")
	s := entries(a.Add(b))
	ea, eb := entries(a), entries(b)
	for i := 0; i < 4; i++ {
		for j := 0; j < 4; j++ {
			zz.AssertNear(s[i][j], ea[i][j]+eb[i][j], fmt.Sprintf("matrix addition is entry-wise [%d][%d]", i, j))
		}
	}
}

func ZZ_C17_MatrixMultiply() {
	a, b := symMat("a"), symMat("b")
	zz.Reach("input")
	p := entries(a.Multiply(b))
	ea, eb := entries(a), entries(b)
	for i := 0; i < 4; i++ {
		for j := 0; j < 4; j++ {
			w := 0.
			for k := 0; k < 4; k++ {
				w += ea[i][k] * eb[k][j]
			}
			zz.AssertNear(p[i][j], w, fmt.Sprintf("matrix product is row-by-column [%d][%d]", i, j))
		}
	}
	id := mat.Identity()
	l, r := entries(id.Multiply(a)), entries(a.Multiply(id))
	for i := 0; i < 4; i++ {
		for j := 0; j < 4; j++ {
			zz.AssertNear(l[i][j], ea[i][j], "I*A = A")
			zz.AssertNear(r[i][j], ea[i][j], "A*I = A")
		}
	}
}

func ZZ_C17_MatrixInverse() {
	a := symMat("a")
	// bottom row (0,0,0,1): the affine matrices the library builds; keeps the NRA queries small
	a.X30, a.X31, a.X32, a.X33 = 0, 0, 0, 1
	d := a.Determinant()
	zz.Assume(d > 0 || d < 0) // every invertible matrix, however small its determinant
	zz.Reach("input")
	inv := a.Inverse()
	l, r := entries(a.Multiply(inv)), entries(inv.Multiply(a))
	for i := 0; i < 4; i++ {
		for j := 0; j < 4; j++ {
			w := 0.
			if i == j {
				w = 1
			}
			zz.AssertNear(l[i][j], w, fmt.Sprintf("A * inverse(A) = I [%d][%d]", i, j))
			zz.AssertNear(r[i][j], w, fmt.Sprintf("inverse(A) * A = I [%d][%d]", i, j))
		}
	}
}

func ZZ_C17_MatrixDeterminant() {
	a, b := symMat("a"), symMat("b")
	a.X30, a.X31, a.X32, a.X33 = 0, 0, 0, 1
	b.X30, b.X31, b.X32, b.X33 = 0, 0, 0, 1
	zz.Reach("input")
	zz.AssertNear(a.Multiply(b).Determinant(), a.Determinant()*b.Determinant(), "det(A*B) = det(A) det(B)")
	zz.AssertNear(mat.Identity().Determinant(), 1, "det(I) = 1")
}

func ZZ_C17_MatrixMulPosition() {
	a, v := symMat("a"), vec("v")
	zz.Reach("input")
	e := entries(a)
	g := a.MulPosition(v)
	zz.AssertNear(g.X(), e[0][0]*v.X()+e[0][1]*v.Y()+e[0][2]*v.Z()+e[0][3], "MulPosition x = row 0 . (v,1)")
	zz.AssertNear(g.Y(), e[1][0]*v.X()+e[1][1]*v.Y()+e[1][2]*v.Z()+e[1][3], "MulPosition y = row 1 . (v,1)")
	zz.AssertNear(g.Z(), e[2][0]*v.X()+e[2][1]*v.Y()+e[2][2]*v.Z()+e[2][3], "MulPosition z = row 2 . (v,1)")
}

// TRS applies scale, then rotation, then translation
func ZZ_C17_TRS() {
	p, s, q, v := vec("p"), vec("s"), quat("q"), vec("v")
	zz.Reach("input")
	t := trs.New(p, q, s)
	g := t.Transform(v)
	w := q.Rotate(vector3.New(s.X()*v.X(), s.Y()*v.Y(), s.Z()*v.Z()))
	zz.AssertNear(g.X(), w.X()+p.X(), "TRS.Transform = R(S*v)+T (x)")
	zz.AssertNear(g.Y(), w.Y()+p.Y(), "TRS.Transform = R(S*v)+T (y)")
	zz.AssertNear(g.Z(), w.Z()+p.Z(), "TRS.Transform = R(S*v)+T (z)")
	u := vec("u")
	arr := []vector3.Float64{v, u}
	out := t.TransformArray(arr)
	zz.Assert(len(out) == 2, "TransformArray keeps the length")
	gu := t.Transform(u)
	zz.AssertNear(out[0].X(), g.X(), "TransformArray is point-wise (0.x)")
	zz.AssertNear(out[1].Z(), gu.Z(), "TransformArray is point-wise (1.z)")
	zz.AssertNear(arr[0].X(), v.X(), "TransformArray leaves its input alone")
	t.TransformInPlace(arr)
	zz.AssertNear(arr[0].Y(), g.Y(), "TransformInPlace is point-wise (0.y)")
	zz.AssertNear(arr[1].X(), gu.X(), "TransformInPlace is point-wise (1.x)")
	// identity-like constructors
	zz.AssertNear(trs.Position(p).Transform(v).X(), v.X()+p.X(), "trs.Position translates")
	zz.AssertNear(trs.Scale(s).Transform(v).Y(), v.Y()*s.Y(), "trs.Scale scales")
}

func inBox(b geometry.AABB, p vector3.Float64, tag string) {
	mn, mx := b.Min(), b.Max()
	e := 1e-9
	zz.Assert(p.X() >= mn.X()-e && p.X() <= mx.X()+e, tag+" (x)")
	zz.Assert(p.Y() >= mn.Y()-e && p.Y() <= mx.Y()+e, tag+" (y)")
	zz.Assert(p.Z() >= mn.Z()-e && p.Z() <= mx.Z()+e, tag+" (z)")
}

// boxes grown to encapsulate points/boxes contain them and what they contained before
func ZZ_C17_AABBEncapsulate() {
	a, b, p := vec("a"), vec("b"), vec("p")
	zz.Reach("input")
	box := geometry.NewAABBFromPoints(a, b)
	inBox(box, a, "NewAABBFromPoints contains its first point")
	inBox(box, b, "NewAABBFromPoints contains its second point")
	oldMin, oldMax := box.Min(), box.Max()
	box.EncapsulatePoint(p)
	inBox(box, p, "EncapsulatePoint: the box contains the point")
	inBox(box, oldMin, "EncapsulatePoint: the box still contains its old min corner")
	inBox(box, oldMax, "EncapsulatePoint: the box still contains its old max corner")
}

func ZZ_C17_AABBEncapsulateBounds() {
	a, b, c, d := vec("a"), vec("b"), vec("c"), vec("d")
	zz.Reach("input")
	box, other := geometry.NewAABBFromPoints(a, b), geometry.NewAABBFromPoints(c, d)
	oldMin, oldMax := box.Min(), box.Max()
	box.EncapsulateBounds(other)
	inBox(box, other.Min(), "EncapsulateBounds: contains the other box (min)")
	inBox(box, other.Max(), "EncapsulateBounds: contains the other box (max)")
	inBox(box, oldMin, "EncapsulateBounds: still contains its old min corner")
	inBox(box, oldMax, "EncapsulateBounds: still contains its old max corner")
}

func ZZ_C17_AABBClosestPoint() {
	a, b, p := vec("a"), vec("b"), vec("p")
	zz.Reach("input")
	box := geometry.NewAABBFromPoints(a, b)
	cp := box.ClosestPoint(p)
	inBox(box, cp, "ClosestPoint lies in the box")
	if box.Contains(p) {
		zz.AssertNear(cp.X(), p.X(), "ClosestPoint of an inside point is the point (x)")
		zz.AssertNear(cp.Y(), p.Y(), "ClosestPoint of an inside point is the point (y)")
		zz.AssertNear(cp.Z(), p.Z(), "ClosestPoint of an inside point is the point (z)")
	}
	mn, mx := box.Min(), box.Max()
	in := p.X() >= mn.X() && p.X() <= mx.X() && p.Y() >= mn.Y() && p.Y() <= mx.Y() && p.Z() >= mn.Z() && p.Z() <= mx.Z()
	zz.Assert(box.Contains(p) == in, "Contains is consistent with Min/Max")
}

// FromTheta yields a unit quaternion whose rotation fixes the axis
func ZZ_C17_FromTheta() {
	axis := vec("axis")
	theta := zz.Float64("theta")
	n2 := norm2(axis)
	zz.Assume(n2 > 0.01)
	zz.Reach("input")
	q := quaternion.FromTheta(theta, axis)
	zz.AssertNear(qnorm2(q), 1, "FromTheta yields a unit quaternion")
	r := q.Rotate(axis)
	zz.AssertNear(r.X(), axis.X(), "rotation about an axis fixes the axis (x)")
	zz.AssertNear(r.Y(), axis.Y(), "rotation about an axis fixes the axis (y)")
	zz.AssertNear(r.Z(), axis.Z(), "rotation about an axis fixes the axis (z)")
}

var unitDirs = []vector3.Float64{
	vector3.New(1., 0., 0.), vector3.New(0., 1., 0.), vector3.New(0., 0., 1.), vector3.New(0., -1., 0.),
	vector3.New(0.6, 0.8, 0.), vector3.New(0., -0.6, 0.8),
}

// the rotation between two directions maps the first onto the second (one direction from a concrete list,
// the other an arbitrary unit vector; both ways round)
func ZZ_C17_RotationTo() {
	k := zz.Choose("dir", zz.Bound("DIRS"))
	c := unitDirs[k]
	s := vec("s")
	zz.Assume(norm2(s) == 1)
	swap := zz.Bool("swap")
	from, to := c, s
	if swap {
		from, to = s, c
	}
	dot := from.X()*to.X() + from.Y()*to.Y() + from.Z()*to.Z()
	zz.Assume(dot > -0.99)
	if dot > 0.999999 {
		// the library's special case for (nearly) parallel directions: the identity rotation, which leaves
		// a where it is (b is then within sqrt(2-2*0.999999) < 1.5e-3 of a by the branch condition)
		q := quaternion.RotationTo(from, to)
		g := q.Rotate(from)
		zz.AssertNear(g.X(), from.X(), "RotationTo (parallel case) is the identity (x)")
		zz.AssertNear(g.Y(), from.Y(), "RotationTo (parallel case) is the identity (y)")
		zz.AssertNear(g.Z(), from.Z(), "RotationTo (parallel case) is the identity (z)")
		zz.Reach("parallel")
		return
	}
	zz.Reach("input")
	q := quaternion.RotationTo(from, to)
	// Asking the solver directly for Rotate(RotationTo(a,b), a) = b drags a square root and three divisions
	// through a degree-4 identity (unknown at 120 s). The claim is decomposed into steps that are each decided:
	//  (A) q is a unit quaternion; (B) q is a positive multiple of q' = (a x b, 1 + a.b);
	//  (C) the sqrt-free identity Rotate(q', a) = |q'|^2 b;  (D) Rotate(k q0, v) = k^2 Rotate(q0, v) (ZZ_C17_QuatHomogeneous).
	// A-D give Rotate(q, a) = b.
	cross := vector3.New(from.Y()*to.Z()-from.Z()*to.Y(), from.Z()*to.X()-from.X()*to.Z(), from.X()*to.Y()-from.Y()*to.X())
	w := 1 + dot
	zz.AssertNear(qnorm2(q), 1, "RotationTo: (A) the result is a unit quaternion")
	zz.AssertNear(q.W()*cross.X(), q.Dir().X()*w, "RotationTo: (B) parallel to (a x b, 1 + a.b) (x)")
	zz.AssertNear(q.W()*cross.Y(), q.Dir().Y()*w, "RotationTo: (B) parallel to (a x b, 1 + a.b) (y)")
	zz.AssertNear(q.W()*cross.Z(), q.Dir().Z()*w, "RotationTo: (B) parallel to (a x b, 1 + a.b) (z)")
	zz.Assert(q.W() > 0, "RotationTo: (B) positive multiple")
	qp := quaternion.New(cross, w)
	n := qnorm2(qp)
	g := qp.Rotate(from)
	zz.AssertNear(g.X(), n*to.X(), "RotationTo: (C) Rotate(q', a) = |q'|^2 b (x)")
	zz.AssertNear(g.Y(), n*to.Y(), "RotationTo: (C) Rotate(q', a) = |q'|^2 b (y)")
	zz.AssertNear(g.Z(), n*to.Z(), "RotationTo: (C) Rotate(q', a) = |q'|^2 b (z)")
}

// (D) rotation is homogeneous of degree two in the quaternion
func ZZ_C17_QuatHomogeneous() {
	q, v := quat("q"), vec("v")
	k := zz.Float64("k")
	zz.Reach("input")
	kq := quaternion.New(vector3.New(k*q.Dir().X(), k*q.Dir().Y(), k*q.Dir().Z()), k*q.W())
	a, b := kq.Rotate(v), q.Rotate(v)
	zz.AssertNear(a.X(), k*k*b.X(), "Rotate(k q, v) = k^2 Rotate(q, v) (x)")
	zz.AssertNear(a.Y(), k*k*b.Y(), "Rotate(k q, v) = k^2 Rotate(q, v) (y)")
	zz.AssertNear(a.Z(), k*k*b.Z(), "Rotate(k q, v) = k^2 Rotate(q, v) (z)")
}

// anti-parallel special case: RotationTo(a, -a) is a half turn that maps a onto -a (a from the concrete list
// plus oblique directions; everything is concrete, the point is to execute the library's own branch)
func ZZ_C17_RotationToOpposed() {
	dirs := append([]vector3.Float64{}, unitDirs...)
	dirs = append(dirs, vector3.New(-1., 0., 0.), vector3.New(0., 0., -1.), vector3.New(-0.6, 0., -0.8))
	dirs = append(dirs, vector3.New(1., 2., 3.).Normalized(), vector3.New(-2., 1., 0.5).Normalized(), vector3.New(0.3, -0.4, 0.5).Normalized())
	from := dirs[zz.Choose("dir", len(dirs))]
	to := vector3.New(-from.X(), -from.Y(), -from.Z())
	zz.Reach("input")
	q := quaternion.RotationTo(from, to)
	g := q.Rotate(from)
	near := func(a, b float64) bool { return a-b <= 1e-9 && b-a <= 1e-9 }
	zz.Assert(near(g.X(), to.X()) && near(g.Y(), to.Y()) && near(g.Z(), to.Z()), "RotationTo(a,-a) maps a onto -a")
	zz.Assert(near(qnorm2(q), 1), "RotationTo(a,-a) is a unit quaternion")
}
