// Package c08: PLY files written by other tools (C08). A small reference encoder emits header text + body for
// a layout descriptor; layouts are enumerated concretely, the body is symbolic.
package c08

import (
	"fmt"
	"math"
	"strconv"

	"github.com/EliCDavis/polyform/formats/ply"
	"github.com/EliCDavis/polyform/modeling"
	zz "github.com/EliCDavis/polyform/zzverif"
)

type prop struct{ name, typ string } // typ: uchar int float double

type layout struct {
	name      string
	props     []prop
	alias     bool // header uses uint8/int32/float32/float64
	comments  bool // comment and obj_info lines
	crlf      bool
	faces     int // 0 none, 3 triangles, 4 quads
	countType string
	listType  string
	indexName string // vertex_indices unless set
	preList   bool   // an unrecognised "property list uchar int adjacency" precedes the indices
	texcoord  bool   // "property list uchar float texcoord" follows the indices (per-corner uv)
}

var xyzF = []prop{{"x", "float"}, {"y", "float"}, {"z", "float"}}
var xyzD = []prop{{"x", "double"}, {"y", "double"}, {"z", "double"}}
var nrmF = []prop{{"nx", "float"}, {"ny", "float"}, {"nz", "float"}}
var rgb = []prop{{"red", "uchar"}, {"green", "uchar"}, {"blue", "uchar"}}

func cat(ps ...[]prop) []prop {
	var r []prop
	for _, p := range ps {
		r = append(r, p...)
	}
	return r
}

var layouts = []layout{
	{name: "xyz float", props: xyzF},
	{name: "xyz double, aliases", props: xyzD, alias: true},
	{name: "extra scalar first", props: cat([]prop{{"quality", "float"}}, xyzF)},
	{name: "xyz + normals + comments", props: cat(xyzF, nrmF), comments: true},
	{name: "normals before xyz, crlf", props: cat(nrmF, xyzF), crlf: true},
	{name: "xyz + rgb", props: cat(xyzF, rgb)},
	{name: "interleaved extra int", props: []prop{{"x", "float"}, {"flag", "int"}, {"y", "float"}, {"z", "float"}}},
	{name: "triangles uchar/int", props: xyzF, faces: 3, countType: "uchar", listType: "int"},
	{name: "quads uchar/uint, aliases", props: xyzF, faces: 4, countType: "uchar", listType: "uint", alias: true},
	{name: "triangles int/int + normals", props: cat(xyzF, nrmF), faces: 3, countType: "int", listType: "int"},
	{name: "xyz int", props: []prop{{"x", "int"}, {"y", "int"}, {"z", "int"}}},
	{name: "extra uchar scalar last", props: cat(xyzF, []prop{{"confidence", "uchar"}})},
	{name: "extra double scalar", props: cat(xyzF, []prop{{"time", "double"}}), alias: true},
	{name: "rgb before xyz + quads uint/int", props: cat(rgb, xyzD), faces: 4, countType: "uint", listType: "int", comments: true},
	{name: "s t texcoords", props: cat(xyzF, []prop{{"s", "float"}, {"t", "float"}})},
	{name: "xyz + alpha colour", props: cat(xyzF, rgb, []prop{{"alpha", "uchar"}}), crlf: true},
	{name: "mixed triangles and quads, vertex_index", props: xyzF, faces: 34, countType: "uchar", listType: "int", indexName: "vertex_index"},
	{name: "unrecognised list before the indices", props: xyzF, faces: 34, countType: "uchar", listType: "uint", preList: true},
	{name: "per-corner texcoord list", props: xyzF, faces: 34, countType: "uchar", listType: "int", texcoord: true},
	{name: "double xyz + float quality + uchar rgb + int id", props: cat(xyzD, []prop{{"quality", "float"}}, rgb, []prop{{"flag", "int"}}), alias: true, comments: true, crlf: true},
}

var aliasOf = map[string]string{"uchar": "uint8", "int": "int32", "uint": "uint32", "float": "float32", "double": "float64"}

type value struct {
	b byte
	i int32
	f float32
	d float64
}

func (l layout) typeName(t string) string {
	if l.alias {
		return aliasOf[t]
	}
	return t
}

func (l layout) header(format string, V, F int) string {
	nl := "\n"
	if l.crlf {
		nl = "\r\n"
	}
	h := "ply" + nl + "format " + format + " 1.0" + nl
	if l.comments {
		h += "comment made by some other tool" + nl + "obj_info units mm" + nl
	}
	h += fmt.Sprintf("element vertex %d", V) + nl
	for _, p := range l.props {
		h += "property " + l.typeName(p.typ) + " " + p.name + nl
	}
	if l.faces > 0 {
		h += fmt.Sprintf("element face %d", F) + nl
		if l.preList {
			h += "property list " + l.typeName("uchar") + " " + l.typeName("int") + " adjacency" + nl
		}
		name := l.indexName
		if name == "" {
			name = "vertex_indices"
		}
		h += "property list " + l.typeName(l.countType) + " " + l.typeName(l.listType) + " " + name + nl
		if l.texcoord {
			h += "property list " + l.typeName("uchar") + " " + l.typeName("float") + " texcoord" + nl
		}
	}
	return h + "end_header" + nl
}

func putU32(b []byte, v uint32, big bool) []byte {
	if big {
		return append(b, byte(v>>24), byte(v>>16), byte(v>>8), byte(v))
	}
	return append(b, byte(v), byte(v>>8), byte(v>>16), byte(v>>24))
}

func putU64(b []byte, v uint64, big bool) []byte {
	if big {
		return append(putU32(b, uint32(v>>32), true), putU32(nil, uint32(v), true)...)
	}
	return append(putU32(b, uint32(v), false), putU32(nil, uint32(v>>32), false)...)
}

func (v value) expected(t string) float64 {
	switch t {
	case "uchar":
		return float64(v.b) / 255.
	case "int":
		return float64(v.i)
	case "float":
		return float64(v.f)
	}
	return v.d
}

func encodeScalar(b []byte, t string, v value, format int) []byte {
	if format == 0 {
		switch t {
		case "uchar":
			return strconv.AppendInt(b, int64(v.b), 10)
		case "int":
			return strconv.AppendInt(b, int64(v.i), 10)
		case "float":
			return strconv.AppendFloat(b, float64(v.f), 'f', -1, 32)
		}
		return strconv.AppendFloat(b, v.d, 'f', -1, 64)
	}
	big := format == 2
	switch t {
	case "uchar":
		return append(b, v.b)
	case "int":
		return putU32(b, uint32(v.i), big)
	case "float":
		return putU32(b, math.Float32bits(v.f), big)
	}
	return putU64(b, math.Float64bits(v.d), big)
}

func symValue(name, t string) value {
	switch t {
	case "uchar":
		return value{b: zz.Byte(name)}
	case "int":
		return value{i: int32(zz.Int(name, -1<<31, 1<<31-1))}
	case "float":
		return value{f: zz.Float32(name)}
	}
	return value{d: zz.Float64(name)}
}

var formats = []string{"ascii", "binary_little_endian", "binary_big_endian"}

func ZZ_C08_OtherTools() {
	l := layouts[zz.Choose("layout", zz.Bound("LAYOUTS"))]
	format := zz.Choose("format", 3)
	V := 1 + zz.Choose("V", zz.Bound("V"))
	F := 0
	if l.faces > 0 {
		F = 1 + zz.Choose("F", zz.Bound("F"))
		if l.texcoord && l.faces == 34 && zz.Bound("F") < 2 {
			// two list properties per face and lists of different lengths on consecutive lines: readers that keep
			// per-property scratch state are only exercised by at least two faces
			F = 1 + zz.Choose("F (two lists per face)", 2)
		}
	}
	zz.Note("layout: " + l.name + " / " + formats[format])
	body := []byte{}
	vals := make([][]value, V)
	for i := 0; i < V; i++ {
		vals[i] = make([]value, len(l.props))
		for k, p := range l.props {
			vals[i][k] = symValue(fmt.Sprintf("v%d.%s", i, p.name), p.typ)
			if format == 0 && k > 0 {
				body = append(body, ' ')
			}
			body = encodeScalar(body, p.typ, vals[i][k], format)
		}
		if format == 0 {
			body = append(body, '\n')
		}
	}
	faceIdx := make([][]int, F)
	faceUV := make([][]float32, F)
	sep := func() {
		if format == 0 {
			body = append(body, ' ')
		}
	}
	for f := 0; f < F; f++ {
		corners := l.faces
		if corners == 34 {
			corners = 3 + zz.Choose(fmt.Sprintf("f%d.corners", f), 2)
		}
		if l.preList {
			n := zz.Choose(fmt.Sprintf("f%d.adjacent", f), 3)
			body = encodeScalar(body, "uchar", value{b: byte(n)}, format)
			for c := 0; c < n; c++ {
				sep()
				body = encodeScalar(body, "int", value{i: int32(zz.Int(fmt.Sprintf("f%d.adj%d", f, c), -1<<31, 1<<31-1))}, format)
			}
			sep()
		}
		faceIdx[f] = make([]int, corners)
		cnt := value{b: byte(corners), i: int32(corners)}
		ct := l.countType
		if ct == "uint" {
			ct = "int"
		}
		body = encodeScalar(body, ct, cnt, format)
		for c := 0; c < corners; c++ {
			faceIdx[f][c] = zz.Int(fmt.Sprintf("f%d.%d", f, c), 0, V-1)
			sep()
			body = encodeScalar(body, "int", value{i: int32(faceIdx[f][c])}, format)
		}
		if l.texcoord {
			sep()
			body = encodeScalar(body, "uchar", value{b: byte(2 * corners)}, format)
			faceUV[f] = make([]float32, 2*corners)
			for c := range faceUV[f] {
				faceUV[f][c] = zz.Float32(fmt.Sprintf("f%d.uv%d", f, c))
				sep()
				body = encodeScalar(body, "float", value{f: faceUV[f][c]}, format)
			}
		}
		if format == 0 {
			body = append(body, '\n')
		}
	}
	file := append([]byte(l.header(formats[format], V, F)), body...)
	zz.Reach("input")
	m, err := ply.ReadMesh(&zz.Buf{B: file, Limit: -1})
	zz.Assert(err == nil, "a specification-conforming PLY file failed to load")
	if err != nil {
		return
	}
	zz.Reach("loaded")
	// the triangles the file describes, as record numbers
	var want []int
	var wantUV []float32
	for f := 0; f < F; f++ {
		fan := [][3]int{{0, 1, 2}}
		if len(faceIdx[f]) == 4 {
			fan = append(fan, [3]int{0, 2, 3})
		}
		for _, t := range fan {
			for _, c := range t {
				want = append(want, faceIdx[f][c])
				if l.texcoord {
					wantUV = append(wantUV, faceUV[f][2*c], faceUV[f][2*c+1])
				}
			}
		}
	}
	// record carried by mesh vertex k: the identity, or (per-corner texcoords) one vertex per corner
	N := V
	record := func(k int) int { return k }
	if l.texcoord {
		N = len(want)
		record = func(k int) int { return want[k] }
	}
	zz.Assert(m.AttributeLength() == N, "one vertex per record (one per corner when faces carry per-corner texcoords)")
	if m.AttributeLength() != N {
		return
	}
	// expected attribute values per vertex
	get := func(k int, name string) (float64, bool) {
		for j, p := range l.props {
			if p.name == name {
				if V == 1 {
					return vals[0][j].expected(p.typ), true
				}
				r := record(k)
				e := vals[0][j].expected(p.typ)
				for i := 1; i < V; i++ {
					e = zz.IteF(r == i, vals[i][j].expected(p.typ), e)
				}
				return e, true
			}
		}
		return 0, false
	}
	same := func(got, want float64, label string) {
		zz.Assert(math.Float64bits(got) == math.Float64bits(want), label)
	}
	for i := 0; i < N; i++ {
		if x, ok := get(i, "x"); ok {
			y, _ := get(i, "y")
			z, _ := get(i, "z")
			zz.Assert(m.HasFloat3Attribute(modeling.PositionAttribute), "x y z become the position attribute")
			if m.HasFloat3Attribute(modeling.PositionAttribute) {
				p := m.Float3Attribute(modeling.PositionAttribute).At(i)
				same(p.X(), x, "vertex i carries the x of record i")
				same(p.Y(), y, "vertex i carries the y of record i")
				same(p.Z(), z, "vertex i carries the z of record i")
			}
		}
		if x, ok := get(i, "nx"); ok {
			y, _ := get(i, "ny")
			z, _ := get(i, "nz")
			zz.Assert(m.HasFloat3Attribute(modeling.NormalAttribute), "nx ny nz become the normal attribute")
			if m.HasFloat3Attribute(modeling.NormalAttribute) {
				p := m.Float3Attribute(modeling.NormalAttribute).At(i)
				same(p.X(), x, "vertex i carries the nx of record i")
				same(p.Y(), y, "vertex i carries the ny of record i")
				same(p.Z(), z, "vertex i carries the nz of record i")
			}
		}
		if r, ok := get(i, "red"); ok {
			g, _ := get(i, "green")
			b, _ := get(i, "blue")
			_, hasAlpha := get(i, "alpha")
			// without an alpha property the reader yields a three-component colour
			if hasAlpha {
				zz.Assert(m.HasFloat4Attribute(modeling.ColorAttribute), "red green blue alpha become the colour attribute")
			} else {
				zz.Assert(m.HasFloat4Attribute(modeling.ColorAttribute) || m.HasFloat3Attribute(modeling.ColorAttribute), "red green blue become the colour attribute")
			}
			if m.HasFloat4Attribute(modeling.ColorAttribute) {
				c := m.Float4Attribute(modeling.ColorAttribute).At(i)
				same(c.X(), r, "vertex i carries the red of record i (byte/255)")
				same(c.Y(), g, "vertex i carries the green of record i (byte/255)")
				same(c.Z(), b, "vertex i carries the blue of record i (byte/255)")
				if a, ok := get(i, "alpha"); ok {
					same(c.W(), a, "vertex i carries the alpha of record i (byte/255)")
				}
			} else if m.HasFloat3Attribute(modeling.ColorAttribute) {
				c := m.Float3Attribute(modeling.ColorAttribute).At(i)
				same(c.X(), r, "vertex i carries the red of record i (byte/255)")
				same(c.Y(), g, "vertex i carries the green of record i (byte/255)")
				same(c.Z(), b, "vertex i carries the blue of record i (byte/255)")
			}
		}
		if s, ok := get(i, "s"); ok {
			t, _ := get(i, "t")
			zz.Assert(m.HasFloat2Attribute(modeling.TexCoordAttribute), "s t become the texture coordinate attribute")
			if m.HasFloat2Attribute(modeling.TexCoordAttribute) {
				c := m.Float2Attribute(modeling.TexCoordAttribute).At(i)
				same(c.X(), s, "vertex i carries the s of record i")
				same(c.Y(), t, "vertex i carries the t of record i")
			}
		}
		for _, extra := range []string{"quality", "flag", "confidence", "time"} {
			if w, ok := get(i, extra); ok {
				zz.Assert(m.HasFloat1Attribute(extra), "an unrecognised scalar property becomes a scalar attribute")
				if m.HasFloat1Attribute(extra) {
					isUchar := false
					for _, p := range l.props {
						if p.name == extra && p.typ == "uchar" {
							isUchar = true
						}
					}
					if isUchar && format == 0 {
						// known finding: the ascii scalar reader does not rescale 8-bit values (the suite pins it)
						same(m.Float1Attribute(extra).At(i), w, "an 8-bit scalar loads to the same value from ascii as from the binary encodings (byte/255)")
					} else {
						same(m.Float1Attribute(extra).At(i), w, "vertex i carries the unrecognised scalar of record i")
					}
				}
			}
		}
	}
	if l.faces > 0 {
		zz.Assert(m.Topology() == modeling.TriangleTopology, "a face element yields a triangle mesh")
		idx := m.Indices()
		zz.Assert(idx.Len() == len(want), "triangles: one per triangle face, two per quad")
		if idx.Len() == len(want) {
			for k := range want {
				if l.texcoord {
					zz.Assert(idx.At(k) == k, "per-corner texcoords: corner k is its own vertex")
				} else {
					zz.Assert(idx.At(k) == want[k], "each quad contributes the fan (0,1,2) (0,2,3) over its listed vertices")
				}
			}
		}
		if l.texcoord {
			zz.Assert(m.HasFloat2Attribute(modeling.TexCoordAttribute), "the texcoord list becomes the texture coordinate attribute")
			if m.HasFloat2Attribute(modeling.TexCoordAttribute) && idx.Len() == len(want) {
				uv := m.Float2Attribute(modeling.TexCoordAttribute)
				for k := range want {
					// a float's decimal text is compared at float precision
					zz.Assert(float32(uv.At(k).X()) == wantUV[2*k] && float32(uv.At(k).Y()) == wantUV[2*k+1], "corner k carries the uv pair listed for it")
				}
			}
		}
	} else {
		zz.Assert(m.Topology() == modeling.PointTopology && m.Indices().Len() == V, "no face element yields a point cloud")
	}
	zz.Reach("checked")
}
