// Package c16: spatial index queries agree with exhaustive search (C16), decided over the reals.
package c16

import (
	"fmt"

	"github.com/EliCDavis/polyform/math/geometry"
	"github.com/EliCDavis/polyform/trees"
	zz "github.com/EliCDavis/polyform/zzverif"
	"github.com/EliCDavis/vector/vector3"
)

// a point element
type pt struct{ p vector3.Float64 }

func (e pt) BoundingBox() geometry.AABB                   { return geometry.NewAABB(e.p, vector3.Zero[float64]()) }
func (e pt) ClosestPoint(vector3.Float64) vector3.Float64 { return e.p }

func sv3(name string) vector3.Float64 {
	return vector3.New(zz.Float64(name+".x"), zz.Float64(name+".y"), zz.Float64(name+".z"))
}

func d2(a, b vector3.Float64) float64 {
	dx, dy, dz := a.X()-b.X(), a.Y()-b.Y(), a.Z()-b.Z()
	return dx*dx + dy*dy + dz*dz
}

// concrete layouts (printed in evidence through the harness source): single, pair in one octant,
// clustered, far apart, coincident
var layouts = [][]vector3.Float64{
	{vector3.New(0., 0., 0.)},
	{vector3.New(1., 1., 1.), vector3.New(2., 3., 1.)},
	{vector3.New(0., 0., 0.), vector3.New(4., 0., 0.), vector3.New(0., 4., 0.)},
	{vector3.New(-5., -5., -5.), vector3.New(5., 5., 5.), vector3.New(5., -5., 5.), vector3.New(0.5, 0.25, 0.)},
	{vector3.New(1., 2., 3.), vector3.New(1., 2., 3.)},
}

// elements = one concrete layout + one element with symbolic coordinates inserted at a symbolic position
func elements() ([]trees.Element, []vector3.Float64) {
	base := layouts[zz.Choose("layout", zz.Bound("LAYOUTS"))]
	// the free element varies along one (symbolically chosen) axis; its other two coordinates are fixed.
	// With all three coordinates free the float comparisons of bounds construction alone split the space
	// into ~10^4 regions for two elements (measured), which is beyond a per-change budget.
	tv := zz.Float64("e.t")
	var s vector3.Float64
	switch zz.Choose("e.axis", zz.Bound("AXES")) {
	case 0:
		s = vector3.New(tv, 0.75, -0.5)
	case 1:
		s = vector3.New(0.75, tv, -0.5)
	default:
		s = vector3.New(-0.5, 0.75, tv)
	}
	at := zz.Choose("insertAt", len(base)+1)
	var ps []vector3.Float64
	for i := 0; i <= len(base); i++ {
		if i == at {
			ps = append(ps, s)
		}
		if i < len(base) {
			ps = append(ps, base[i])
		}
	}
	els := make([]trees.Element, len(ps))
	for i, p := range ps {
		els[i] = pt{p}
	}
	return els, ps
}

func tree(els []trees.Element) *trees.OctTree {
	switch zz.Choose("depth", zz.Bound("DEPTHS")) {
	case 0:
		return trees.NewOctreeWithDepth(els, 0)
	case 1:
		return trees.NewOctreeWithDepth(els, 1)
	}
	return trees.NewOctree(els)
}

// closest element: the returned index attains the minimum distance and the point is that element's point
func ZZ_C16_OctreeClosestPoint() {
	els, ps := elements()
	t := tree(els)
	q := sv3("q")
	zz.Reach("built")
	idx, p := t.ClosestPoint(q)
	zz.Assert(idx >= 0 && idx < len(ps), "ClosestPoint returns a valid element index")
	if idx < 0 || idx >= len(ps) {
		return
	}
	zz.AssertNear(p.X(), ps[idx].X(), "ClosestPoint: the point belongs to the returned element (x)")
	zz.AssertNear(p.Y(), ps[idx].Y(), "ClosestPoint: the point belongs to the returned element (y)")
	zz.AssertNear(p.Z(), ps[idx].Z(), "ClosestPoint: the point belongs to the returned element (z)")
	best := d2(ps[idx], q)
	for j := range ps {
		zz.Assert(best <= d2(ps[j], q)+1e-9, fmt.Sprintf("ClosestPoint: no element is closer than the returned one (n=%d)", len(ps)))
	}
	zz.Reach("answered")
}

// elements within a radius: exactly the brute-force set
func ZZ_C16_OctreeWithinRange() {
	els, ps := elements()
	t := tree(els)
	// the query point is free along a line through the layout and the radius is free (with a fully symbolic query
	// point a third of the deciding queries were unknown at 30 s whenever the machine was busy)
	q := vector3.New(zz.Float64("q.t"), []float64{0.5, 2.75}[zz.Choose("q.y", 2)], -0.25)
	r := zz.Float64("r")
	zz.Assume(r > 0)
	zz.Reach("built")
	got := t.ElementsWithinRange(q, r)
	for j := range ps {
		n := 0
		for _, g := range got {
			if g == j {
				n++
			}
		}
		dj := d2(ps[j], q)
		// strictly inside / strictly outside by a margin are decided exactly; the sphere surface itself is a
		// measure-zero seam where sqrt rounding decides
		zz.Assert(zz.Implies(dj < r*r*(1-1e-6), n == 1), "ElementsWithinRange: an element inside the radius is reported exactly once")
		zz.Assert(zz.Implies(dj > r*r*(1+1e-6), n == 0), "ElementsWithinRange: an element outside the radius is not reported")
	}
	zz.Reach("answered")
}

// elements whose bounds contain a point: for point elements, exactly those coinciding with the query
func ZZ_C16_OctreeContainingPoint() {
	els, ps := elements()
	t := tree(els)
	q := sv3("q")
	if zz.Bool("queryAtElement") {
		q = ps[zz.Choose("which", len(ps))]
	}
	zz.Reach("built")
	got := t.ElementsContainingPoint(q)
	for j := range ps {
		n := 0
		for _, g := range got {
			if g == j {
				n++
			}
		}
		same := zz.And(ps[j].X() == q.X(), zz.And(ps[j].Y() == q.Y(), ps[j].Z() == q.Z()))
		zz.Assert(zz.Implies(same, n == 1), "ElementsContainingPoint: an element whose bounds contain the point is reported exactly once")
		zz.Assert(zz.Implies(!same, n == 0), "ElementsContainingPoint: an element whose bounds do not contain the point is not reported")
	}
	zz.Reach("answered")
}

// ray queries: the set of elements whose bounds the ray crosses equals the exhaustive scan with the same
// per-element test - for two successive rays on the same tree (the tree reuses internal buffers).
func ZZ_C16_OctreeRay() {
	boxes := []geometry.AABB{
		geometry.NewAABB(vector3.New(0., 0., 0.), vector3.New(1., 1., 1.)),
		geometry.NewAABB(vector3.New(4., 0., 0.), vector3.New(1., 2., 1.)),
		geometry.NewAABB(vector3.New(0., 5., 1.), vector3.New(2., 1., 1.)),
		geometry.NewAABB(vector3.New(4., 5., -1.), vector3.New(1., 1., 3.)),
	}[:zz.Bound("BOXES")]
	tv := zz.Float64("e.t")
	free := geometry.NewAABB(vector3.New(tv, 2.5, 0.25), vector3.New(1., 1., 1.))
	var els []trees.Element
	var bounds []geometry.AABB
	at := zz.Choose("insertAt", len(boxes)+1)
	for i := 0; i <= len(boxes); i++ {
		if i == at {
			els = append(els, trees.BoundingBoxElement(free))
			bounds = append(bounds, free)
		}
		if i < len(boxes) {
			els = append(els, trees.BoundingBoxElement(boxes[i]))
			bounds = append(bounds, boxes[i])
		}
	}
	t := tree(els)
	dirs := []vector3.Float64{vector3.New(1., 0.25, 0.125), vector3.New(-0.5, 1., 0.25), vector3.New(0.25, -0.125, -1.)}
	zz.Reach("built")
	for q := 0; q < 2; q++ {
		// the ray origin varies along one axis (a fully symbolic origin multiplies the slab-test forks of two
		// successive queries beyond a per-change budget)
		o := vector3.New(zz.Float64(fmt.Sprintf("o%d.x", q)), 0.375, 0.125)
		if q == 1 && (zz.Bound("SECOND") == 0 || !zz.Bool("secondRaySymbolic")) {
			// a second ray that starts far away and points away: it misses every cell the first one may have hit
			o = vector3.New(1000., 0.375, 0.125)
		}
		ray := geometry.NewRay(o, dirs[zz.Choose(fmt.Sprintf("dir%d", q), zz.Bound("DIRS"))])
		got := t.ElementsIntersectingRay(ray, 0, 100)
		for j := range bounds {
			n := 0
			for _, g := range got {
				if g == j {
					n++
				}
			}
			// Concrete boxes are folded in float64 while the free box and the ray are exact reals, so a ray
			// that grazes a face within ~1e-16 can be classified differently by the cell and by the element.
			// The oracle therefore uses the element's own test on a slightly shrunk / grown box: crossing the
			// shrunk box must be reported, missing the grown box must not be.
			b := bounds[j]
			shrunk := geometry.NewAABB(b.Center(), b.Size().Scale(1-1e-6))
			grown := geometry.NewAABB(b.Center(), b.Size().Scale(1+1e-6))
			if shrunk.IntersectsRayInRange(ray, 1e-6, 100-1e-6) {
				zz.Assert(n == 1, fmt.Sprintf("ElementsIntersectingRay (query %d): an element whose bounds the ray crosses is reported exactly once", q+1))
			} else if !grown.IntersectsRayInRange(ray, 0, 100) {
				zz.Assert(n == 0, fmt.Sprintf("ElementsIntersectingRay (query %d): an element whose bounds the ray misses is not reported", q+1))
			}
		}
	}
	zz.Reach("answered")
}

// a segment element: its bounding box is much larger than the primitive, so the distance to the box says
// little about the distance to the element
type seg struct{ a, b vector3.Float64 }

func (e seg) BoundingBox() geometry.AABB { return geometry.NewAABBFromPoints(e.a, e.b) }
func (e seg) ClosestPoint(p vector3.Float64) vector3.Float64 {
	ab := e.b.Sub(e.a)
	t := p.Sub(e.a).Dot(ab) / ab.Dot(ab)
	if t < 0 {
		t = 0
	}
	if t > 1 {
		t = 1
	}
	return e.a.Add(ab.Scale(t))
}

// concrete segment layouts: a long diagonal with short segments tucked into the corners of its box; crossing
// diagonals; a single segment
var segLayouts = [][]seg{
	{{vector3.New(0., 0., 0.), vector3.New(8., 8., 0.)}, {vector3.New(6., 1., 0.), vector3.New(7., 1., 0.)}},
	{{vector3.New(0., 0., 0.), vector3.New(8., 8., 8.)}, {vector3.New(9., 0., 0.), vector3.New(9., 1., 0.)}, {vector3.New(1., 7., 1.), vector3.New(1., 6., 2.)}},
	{{vector3.New(0., 0., 0.), vector3.New(4., 4., 0.)}, {vector3.New(0., 4., 0.), vector3.New(4., 0., 0.)}},
	{{vector3.New(-1., 2., 0.5), vector3.New(2., -2., 0.5)}},
}

// closest element among segments: the query point varies freely along one line through the layout (the other two
// coordinates are taken from a small concrete set), every depth
func ZZ_C16_OctreeClosestSegment() {
	lay := segLayouts[zz.Choose("layout", zz.Bound("LAYOUTS"))]
	els := make([]trees.Element, len(lay))
	for i := range lay {
		els[i] = lay[i]
	}
	t := tree(els)
	tv := zz.Float64("q.t")
	offs := [][2]float64{{1.5, 0.25}, {7.5, 0.5}, {-2, 3}}
	o := offs[zz.Choose("q.offset", zz.Bound("OFFSETS"))]
	var q vector3.Float64
	switch zz.Choose("q.axis", zz.Bound("AXES")) {
	case 0:
		q = vector3.New(tv, o[0], o[1])
	case 1:
		q = vector3.New(o[0], tv, o[1])
	default:
		q = vector3.New(o[1], o[0], tv)
	}
	zz.Reach("built")
	idx, p := t.ClosestPoint(q)
	zz.Assert(idx >= 0 && idx < len(lay), "ClosestPoint(segments) returns a valid element index")
	if idx < 0 || idx >= len(lay) {
		return
	}
	own := lay[idx].ClosestPoint(q)
	zz.AssertNear(p.X(), own.X(), "ClosestPoint(segments): the point is the returned element's closest point (x)")
	zz.AssertNear(p.Y(), own.Y(), "ClosestPoint(segments): the point is the returned element's closest point (y)")
	zz.AssertNear(p.Z(), own.Z(), "ClosestPoint(segments): the point is the returned element's closest point (z)")
	best := d2(own, q)
	for j := range lay {
		zz.Assert(best <= d2(lay[j].ClosestPoint(q), q)*(1+1e-9)+1e-9, fmt.Sprintf("ClosestPoint(segments): no element is closer than the returned one (n=%d)", len(lay)))
	}
	zz.Reach("answered")
}

// closest element among points at sub-unit distances (where a distance and its square order differently): concrete
// points, one per octant of a unit-scale box, the query point free along one line through the box
var smallLayouts = [][]vector3.Float64{
	{vector3.New(0., 0., 0.), vector3.New(0.9, 0., 0.), vector3.New(0., 0.9, 0.), vector3.New(0.9, 0.9, 0.9)},
	{vector3.New(0.1, 0.1, 0.1), vector3.New(0.7, 0.2, 0.1), vector3.New(0.75, 0.8, 0.6), vector3.New(0.2, 0.6, 0.9), vector3.New(0.45, 0.45, 0.5)},
}

func ZZ_C16_OctreeClosestPointSmall() {
	ps := smallLayouts[zz.Choose("layout", zz.Bound("LAYOUTS"))]
	els := make([]trees.Element, len(ps))
	for i, p := range ps {
		els[i] = pt{p}
	}
	t := tree(els)
	tv := zz.Float64("q.t")
	offs := [][2]float64{{0.3, 0.2}, {0.5, 0.55}, {0.85, 0.1}}
	o := offs[zz.Choose("q.offset", zz.Bound("OFFSETS"))]
	var q vector3.Float64
	switch zz.Choose("q.axis", zz.Bound("AXES")) {
	case 0:
		q = vector3.New(tv, o[0], o[1])
	case 1:
		q = vector3.New(o[0], tv, o[1])
	default:
		q = vector3.New(o[1], o[0], tv)
	}
	zz.Reach("built")
	idx, p := t.ClosestPoint(q)
	zz.Assert(idx >= 0 && idx < len(ps), "ClosestPoint(small) returns a valid element index")
	if idx < 0 || idx >= len(ps) {
		return
	}
	zz.AssertNear(p.X(), ps[idx].X(), "ClosestPoint(small): the point belongs to the returned element (x)")
	zz.AssertNear(p.Y(), ps[idx].Y(), "ClosestPoint(small): the point belongs to the returned element (y)")
	zz.AssertNear(p.Z(), ps[idx].Z(), "ClosestPoint(small): the point belongs to the returned element (z)")
	best := d2(ps[idx], q)
	for j := range ps {
		zz.Assert(best <= d2(ps[j], q)*(1+1e-9)+1e-12, fmt.Sprintf("ClosestPoint(small): no element is closer than the returned one (n=%d)", len(ps)))
	}
	zz.Reach("answered")
}

// elements with an extent: overlapping boxes (sibling cells of the tree overlap when elements straddle a cell
// centre, so a point may lie in several children). One box slides along an axis, the query point is free along
// one axis and takes one of a few values on the others.
func ZZ_C16_OctreeContainingBoxes() {
	boxes := []geometry.AABB{
		geometry.NewAABB(vector3.New(0., 0., 0.), vector3.New(6., 1., 1.)),   // slab along x through the centre
		geometry.NewAABB(vector3.New(0., 0., 0.), vector3.New(1., 6., 1.)),   // slab along y through the centre
		geometry.NewAABB(vector3.New(3., 3., 0.), vector3.New(1., 1., 1.)),   // small box in one octant
		geometry.NewAABB(vector3.New(-3., -3., 0.), vector3.New(2., 2., 4.)), // box in the opposite octant
		geometry.NewAABB(vector3.New(-3., 3., 1.), vector3.New(1., 1., 1.)),
	}[:zz.Bound("BOXES")]
	tv := zz.Float64("e.t")
	free := geometry.NewAABB(vector3.New(tv, 0.5, 0.25), vector3.New(2., 2., 1.))
	var els []trees.Element
	var bounds []geometry.AABB
	at := zz.Choose("insertAt", len(boxes)+1)
	for i := 0; i <= len(boxes); i++ {
		if i == at {
			els = append(els, trees.BoundingBoxElement(free))
			bounds = append(bounds, free)
		}
		if i < len(boxes) {
			els = append(els, trees.BoundingBoxElement(boxes[i]))
			bounds = append(bounds, boxes[i])
		}
	}
	t := tree(els)
	others := []float64{0.25, 3., -3., 0.5}[:zz.Bound("OTHERS")]
	q := vector3.New(zz.Float64("q.x"), others[zz.Choose("q.y", len(others))], others[zz.Choose("q.z", 2)])
	if zz.Bound("QAXES") > 1 && zz.Bool("query varies along y") {
		q = vector3.New(others[zz.Choose("q.x'", len(others))], zz.Float64("q.y"), others[zz.Choose("q.z'", 2)])
	}
	zz.Reach("built")
	got := t.ElementsContainingPoint(q)
	for j := range bounds {
		n := 0
		for _, g := range got {
			if g == j {
				n++
			}
		}
		in := bounds[j].Contains(q)
		zz.Assert(zz.Implies(in, n == 1), "ElementsContainingPoint(boxes): an element whose bounds contain the point is reported exactly once")
		zz.Assert(zz.Implies(!in, n == 0), "ElementsContainingPoint(boxes): an element whose bounds do not contain the point is not reported")
	}
	for _, g := range got {
		zz.Assert(g >= 0 && g < len(bounds), "ElementsContainingPoint(boxes): only element indices are reported")
	}
	zz.Reach("answered")
}
