package c16

import (
	"fmt"
	"math"
	"math/rand"

	"github.com/EliCDavis/polyform/math/geometry"
	"github.com/EliCDavis/polyform/rendering"
	zz "github.com/EliCDavis/polyform/zzverif"
	"github.com/EliCDavis/vector/vector2"
	"github.com/EliCDavis/vector/vector3"
)

// a sphere hittable without the texture-coordinate trigonometry of rendering.Sphere; the hit record's UV carries
// the element's identity
type ball struct {
	id int
	c  vector3.Float64
	r  float64
}

func (b ball) Hit(ray *rendering.TemporalRay, min, max float64, rec *rendering.HitRecord) bool {
	oc := ray.Origin().Sub(b.c)
	d := ray.Direction()
	a := d.Dot(d)
	hb := oc.Dot(d)
	disc := hb*hb - a*(oc.Dot(oc)-b.r*b.r)
	if disc < 0 {
		return false
	}
	s := math.Sqrt(disc)
	root := (-hb - s) / a
	if root <= min || max <= root {
		root = (-hb + s) / a
		if root <= min || max <= root {
			return false
		}
	}
	rec.Distance = root
	rec.Point = ray.At(root)
	rec.UV = vector2.New(float64(b.id), 0)
	return true
}

func (b ball) BoundingBox(float64, float64) *geometry.AABB {
	box := geometry.NewAABB(b.c, vector3.Fill(2*b.r))
	return &box
}

var ballLayouts = [][]ball{
	{{c: vector3.New(0., 0., 0.), r: 1}},
	{{c: vector3.New(0., 0., 0.), r: 1}, {c: vector3.New(4., 0.5, 0.), r: 1.5}},
	{{c: vector3.New(0., 0., 0.), r: 1}, {c: vector3.New(4., 0.5, 0.), r: 1.5}, {c: vector3.New(8., -0.5, 0.25), r: 0.75}},
	{{c: vector3.New(3., 0., 0.), r: 2}, {c: vector3.New(3.5, 0.25, 0.), r: 0.5}, {c: vector3.New(-3., 0., 1.), r: 1}}, // one ball inside another
}

// nearest ray hit through the bounding volume hierarchy = nearest hit of the exhaustive scan (HitList): the same
// hit / no hit, the same element and distance. The split axis is random in the library; every outcome of every
// draw is explored (natively the replay searches the seeds).
func ZZ_C16_BVHNearestHit() {
	lay := ballLayouts[zz.Choose("layout", zz.Bound("LAYOUTS"))]
	tv := zz.Float64("free.t")
	free := ball{c: vector3.New(tv, 0.25, -0.5), r: 1}
	at := zz.Choose("insertAt", len(lay)+1)
	var items []rendering.Hittable
	for i := 0; i <= len(lay); i++ {
		if i == at {
			free.id = len(items)
			items = append(items, free)
		}
		if i < len(lay) {
			b := lay[i]
			b.id = len(items)
			items = append(items, b)
		}
	}
	// every component non-zero: the slab test divides by the direction (1/0 = Inf natively, not representable over the reals)
	dirs := []vector3.Float64{vector3.New(2., 1., 2.), vector3.New(-2., 2., 1.), vector3.New(6., -2., 3.), vector3.New(1., 4., -8.)}
	dir := dirs[zz.Choose("dir", zz.Bound("DIRS"))]
	origin := vector3.New(zz.Float64("o.x"), -1.5, -2.25)
	maxT := 100.0
	if zz.Bool("shortRange") {
		maxT = 3
	}
	zz.Reach("built")
	reps := 1
	if !zz.Symbolic() {
		reps = 64 // search the seeds for the recorded outcome of the random split axes
	}
	for s := 0; s < reps; s++ {
		rand.Seed(int64(s))
		list := make(rendering.HitList, len(items))
		copy(list, items)
		objs := make([]rendering.Hittable, len(items))
		copy(objs, items)
		tree := rendering.NewBVHTree(objs, 0, len(objs), 0, 0)
		ray := rendering.NewTemporalRay(origin, dir, 0)
		want, got := rendering.NewHitRecord(), rendering.NewHitRecord()
		wh := list.Hit(&ray, 0.001, maxT, want)
		gh := tree.Hit(&ray, 0.001, maxT, got)
		zz.Assert(wh == gh, fmt.Sprintf("nondet: BVH reports a hit exactly when the exhaustive scan does (n=%d)", len(items)))
		if wh && gh {
			zz.AssertNear(got.Distance, want.Distance, "nondet: BVH nearest hit distance equals the exhaustive scan's")
			// ties between elements aside (equal distance), the same element
			if got.UV.X() != want.UV.X() {
				zz.AssertNear(got.Distance, want.Distance, "nondet: BVH nearest hit element differs only on ties")
			}
		}
	}
	zz.Reach("answered")
}
