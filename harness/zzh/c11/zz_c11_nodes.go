// Package c11 holds the harnesses for C11 (node outputs are never stale; nodes recompute only on change).
package c11

import (
	"fmt"

	"github.com/EliCDavis/polyform/generator/parameter"
	"github.com/EliCDavis/polyform/nodes"
	zz "github.com/EliCDavis/polyform/zzverif"
)

// ---- harness-defined processors with an execution counter (the property's observation point) ----

type counter struct{ n int }

func get(o nodes.NodeOutput[int]) int { return nodes.TryGetOutputValue(o, 0) }

type negData struct {
	In nodes.NodeOutput[int]
	C  *counter
}

// reports an error (together with its value) for negative inputs: an execution that ends in an error is still an
// execution
func (d negData) Process() (int, error) {
	d.C.n++
	x := get(d.In)
	if negErrors && x < 0 {
		return 1 - x, errNegative
	}
	return 1 - x, nil
}

var errNegative = fmt.Errorf("negative input")

// negErrors switches the failing execution on (it doubles the paths per execution of n0)
var negErrors = false

type sumData struct {
	A, B nodes.NodeOutput[int]
	C    *counter
}

// asymmetric in A and B, so exchanged inputs are visible
func (d sumData) Process() (int, error) { d.C.n++; return get(d.A) + 3*get(d.B), nil }

type totalData struct {
	Values []nodes.NodeOutput[int]
	C      *counter
}

// order sensitive, so a reordered array input is visible
func (d totalData) Process() (int, error) {
	d.C.n++
	t := 0
	for i, v := range d.Values {
		t = t*5 + get(v) + i
	}
	return t, nil
}

// ---- the graph: chain p0 -> n0 -> n1, array fan-in n2 = total[n0, p1] sharing n0, diamond n3 = sum(n1, n2) ----

const (
	srcNil = -1
	srcP0  = 0
	srcP1  = 1
	srcN0  = 2 // node k is source 2+k
)

type graph struct {
	p   [2]*parameter.Value[int]
	n0  *nodes.Struct[int, negData]
	n1  *nodes.Struct[int, sumData]
	n2  *nodes.Struct[int, totalData]
	n3  *nodes.Struct[int, sumData]
	c   [4]*counter
	all [4]nodes.Node

	// shadow model kept by the harness (the specification)
	pval    [2]int
	pupd    [2]int
	w0      int    // n0.In
	w1      [2]int // n1.A, n1.B
	w2      []int  // n2.Values
	w3      [2]int // n3.A, n3.B
	dirty   [4]bool
	lastRun [4]int
}

func (g *graph) out(src int) nodes.NodeOutput[int] {
	switch src {
	case srcP0:
		return g.p[0].Out()
	case srcP1:
		return g.p[1].Out()
	case srcN0:
		return g.n0.Out()
	case srcN0 + 1:
		return g.n1.Out()
	case srcN0 + 2:
		return g.n2.Out()
	case srcN0 + 3:
		return g.n3.Out()
	}
	return nil
}

func newGraph() *graph {
	g := &graph{}
	for j := range g.p {
		g.pval[j] = zz.Int(fmt.Sprintf("p%d.default", j), -100, 100)
		g.p[j] = &parameter.Value[int]{Name: fmt.Sprintf("p%d", j), DefaultValue: g.pval[j]}
	}
	for k := range g.c {
		g.c[k] = &counter{}
		g.dirty[k] = true // never executed
	}
	g.n0 = nodes.NewStruct[negData, int](negData{In: g.p[0].Out(), C: g.c[0]})
	g.w0 = srcP0
	g.n1 = nodes.NewStruct[sumData, int](sumData{A: g.n0.Out(), B: g.p[1].Out(), C: g.c[1]})
	g.w1 = [2]int{srcN0, srcP1}
	g.n2 = nodes.NewStruct[totalData, int](totalData{Values: []nodes.NodeOutput[int]{g.n0.Out(), g.p[1].Out()}, C: g.c[2]})
	g.w2 = []int{srcN0, srcP1}
	g.n3 = nodes.NewStruct[sumData, int](sumData{A: g.n1.Out(), B: g.n2.Out(), C: g.c[3]})
	g.w3 = [2]int{srcN0 + 1, srcN0 + 2}
	g.all = [4]nodes.Node{g.n0, g.n1, g.n2, g.n3}
	return g
}

// eval is the from-scratch evaluation of the current wiring with the current parameter values
func (g *graph) eval(src int) int {
	switch src {
	case srcNil:
		return 0
	case srcP0, srcP1:
		return g.pval[src]
	case srcN0:
		return 1 - g.eval(g.w0)
	case srcN0 + 1:
		return g.eval(g.w1[0]) + 3*g.eval(g.w1[1])
	case srcN0 + 2:
		t := 0
		for i, s := range g.w2 {
			t = t*5 + g.eval(s) + i
		}
		return t
	case srcN0 + 3:
		return g.eval(g.w3[0]) + 3*g.eval(g.w3[1])
	}
	panic("bad source")
}

// dependsOn: does node k (transitively, under the current wiring) depend on source s
func (g *graph) dependsOn(k int, s int) bool {
	var ins []int
	switch k {
	case 0:
		ins = []int{g.w0}
	case 1:
		ins = g.w1[:]
	case 2:
		ins = g.w2
	case 3:
		ins = g.w3[:]
	}
	for _, in := range ins {
		if in == s {
			return true
		}
		if in >= srcN0 && g.dependsOn(in-srcN0, s) {
			return true
		}
	}
	return false
}

func (g *graph) setParam(j int, v int) {
	ok, err := g.p[j].ApplyMessage(zz.JSONMsg(v))
	zz.Assert(ok && err == nil, "parameter update accepted")
	g.pval[j] = v
	g.pupd[j]++
	for k := 0; k < 4; k++ {
		if g.dependsOn(k, j) {
			g.dirty[k] = true
		}
	}
}

func (g *graph) rewired(k int) {
	g.dirty[k] = true
	for m := 0; m < 4; m++ {
		if g.dependsOn(m, srcN0+k) {
			g.dirty[m] = true
		}
	}
}

func (g *graph) value(k int) int {
	switch k {
	case 0:
		return g.n0.Value()
	case 1:
		return g.n1.Value()
	case 2:
		return g.n2.Value()
	}
	return g.n3.Value()
}

// read node k and check freshness, the execution discipline and the version law
func (g *graph) read(k int, tag string) {
	reps := 1
	if !zz.Symbolic() {
		// the native replay repeats the read: Go's map iteration order is random, and a re-read with no change in
		// between must not execute anything either
		reps = 64
	}
	for r := 0; r < reps; r++ {
		before := [4]int{g.c[0].n, g.c[1].n, g.c[2].n, g.c[3].n}
		v := g.value(k)
		zz.Assert(v == g.eval(srcN0+k), tag+": value equals the from-scratch evaluation of the current graph")
		for m := 0; m < 4; m++ {
			d := g.c[m].n - before[m]
			zz.Assert(d == 0 || d == 1, tag+": a node executes at most once per read")
			if d != 0 {
				zz.Assert(g.dirty[m], tag+": a node executed although nothing it depends on changed since its last execution")
				zz.Assert(m == k || g.dependsOn(k, srcN0+m), tag+": a node executed that the node read does not depend on")
				g.dirty[m] = false
			}
		}
		zz.Assert(!g.dirty[k], tag+": the node read was outdated but did not execute")
		zz.Assert(g.all[k].State() == nodes.Processed, tag+": the node read reports Processed afterwards")
		g.versions(tag)
	}
}

func (g *graph) versions(tag string) {
	for m := 0; m < 4; m++ {
		zz.Assert(g.all[m].Version() == g.c[m].n, tag+": node version equals its number of executions")
	}
	for j := 0; j < 2; j++ {
		zz.Assert(g.p[j].Version() == g.pupd[j], tag+": parameter version equals its number of updates")
	}
}

// step performs one symbolically chosen operation; ops limits the menu (see the harness entries)
func (g *graph) step(i int, ops int) {
	g.stepOp(i, zz.Choose(fmt.Sprintf("op%d", i), ops))
}

func (g *graph) stepOp(i int, op int) {
	tag := fmt.Sprintf("step %d", i)
	switch op {
	case 0:
		g.read(zz.Choose(fmt.Sprintf("node%d", i), 4), tag)
	case 1:
		g.setParam(zz.Choose(fmt.Sprintf("param%d", i), 2), zz.Int(fmt.Sprintf("val%d", i), -100, 100))
	case 2: // re-wire a scalar input of n1
		port := zz.Choose(fmt.Sprintf("port%d", i), 2)
		src := []int{srcNil, srcP0, srcP1, srcN0}[zz.Choose(fmt.Sprintf("src%d", i), 4)]
		name := []string{"A", "B"}[port]
		g.n1.SetInput(name, nodes.Output{NodeOutput: g.outRef(src)})
		g.w1[port] = src
		g.rewired(1)
	case 3: // append to the array input of n2
		src := []int{srcP0, srcP1, srcN0}[zz.Choose(fmt.Sprintf("src%d", i), 3)]
		g.n2.SetInput(fmt.Sprintf("Values.%d", len(g.w2)), nodes.Output{NodeOutput: g.outRef(src)})
		g.w2 = append(append([]int{}, g.w2...), src)
		g.rewired(2)
	case 4: // remove an element of the array input of n2
		if len(g.w2) == 0 {
			return
		}
		at := zz.Choose(fmt.Sprintf("at%d", i), len(g.w2))
		g.n2.SetInput(fmt.Sprintf("Values.%d", at), nodes.Output{})
		nw := append([]int{}, g.w2[:at]...)
		g.w2 = append(nw, g.w2[at+1:]...)
		g.rewired(2)
	case 5: // re-wire an input of the top node
		port := zz.Choose(fmt.Sprintf("port%d", i), 2)
		src := []int{srcNil, srcP1, srcN0, srcN0 + 1, srcN0 + 2}[zz.Choose(fmt.Sprintf("src%d", i), 5)]
		name := []string{"A", "B"}[port]
		g.n3.SetInput(name, nodes.Output{NodeOutput: g.outRef(src)})
		g.w3[port] = src
		g.rewired(3)
	}
	g.versions(tag)
}

func (g *graph) outRef(src int) nodes.NodeOutputReference {
	if src == srcNil {
		return nil
	}
	return g.out(src)
}

// ZZ_C11_History: a symbolic history over the full menu, closed by a read of every node
func ZZ_C11_History() {
	negErrors = true
	g := newGraph()
	zz.Reach("graph built")
	n := zz.Bound("STEPS")
	for i := 0; i < n; i++ {
		g.step(i, 6)
	}
	for k := 3; k >= 0; k-- {
		g.read(k, fmt.Sprintf("final read of n%d", k))
	}
	zz.Reach("history done")
}

// ZZ_C11_UpdatesAndReads: only reads and parameter updates (menu of 2), longer histories; run with every map
// iteration order chosen independently at each enumeration of a node's dependencies
func ZZ_C11_UpdatesAndReads() {
	g := newGraph()
	zz.Reach("graph built")
	n := zz.Bound("STEPS")
	for i := 0; i < n; i++ {
		g.step(i, 2)
	}
	g.read(zz.Choose("final", 4), "final read")
	zz.Reach("history done")
}

// ZZ_C11_ArrayRewire: every node has been evaluated; then a history of appends to / removals from the array input
// (and reads), closed by a read of every node - re-wirings that leave the number of array elements and the
// remembered versions unchanged are in the explored set
func ZZ_C11_ArrayRewire() {
	g := newGraph()
	zz.Reach("graph built")
	for k := 3; k >= 0; k-- {
		g.read(k, fmt.Sprintf("warm-up read of n%d", k))
	}
	n := zz.Bound("STEPS")
	menu := []int{3, 4, 0, 1} // append, remove, read, parameter update (a change behind a freshly wired element)
	for i := 0; i < n; i++ {
		g.stepOp(i, menu[zz.Choose(fmt.Sprintf("op%d", i), len(menu))])
	}
	for k := 3; k >= 0; k-- {
		g.read(k, fmt.Sprintf("final read of n%d", k))
	}
	zz.Reach("history done")
}
