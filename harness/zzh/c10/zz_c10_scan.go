// Package c10: parallel variants equal their sequential counterparts (C10).
package c10

import (
	"fmt"

	"github.com/EliCDavis/polyform/modeling"
	zz "github.com/EliCDavis/polyform/zzverif"
	"github.com/EliCDavis/vector/vector3"
)

func cloud(n int) (modeling.Mesh, []vector3.Float64) {
	pos := make([]vector3.Float64, n)
	for i := range pos {
		pos[i] = vector3.New(zz.Float64(fmt.Sprintf("p%d.x", i)), zz.Float64(fmt.Sprintf("p%d.y", i)), zz.Float64(fmt.Sprintf("p%d.z", i)))
	}
	return modeling.NewPointCloud(nil, map[string][]vector3.Float64{modeling.PositionAttribute: pos}, nil, nil, nil), pos
}

func triangles(t int) modeling.Mesh {
	pos := make([]vector3.Float64, 3)
	idx := make([]int, 3*t)
	for i := range idx {
		idx[i] = i % 3
	}
	return modeling.NewTriangleMesh(idx).SetFloat3Attribute(modeling.PositionAttribute, pos)
}

// every primitive is visited exactly once; the per-index counters are written by whichever worker visits
// the index, so an index visited by two workers is also a data race the monitor reports.
func scanPrimitives(m modeling.Mesh, n int) {
	pool := zz.Int("pool", 1, zz.Bound("POOL"))
	zz.Reach("input")
	counts := make([]int, n+1)
	m.ScanPrimitivesParallelWithPoolSize(pool, func(i int, p modeling.Primitive) {
		if i >= 0 && i < n {
			counts[i]++
		} else {
			counts[n]++
		}
	})
	for i := 0; i < n; i++ {
		zz.Assert(counts[i] == 1, "parallel primitive scan visits every primitive exactly once")
	}
	zz.Assert(counts[n] == 0, "parallel primitive scan passes only valid indices")
	zz.Reach("done")
}

func ZZ_C10_ScanPrimitivesPoints() {
	n := zz.Choose("n", zz.Bound("N")+1)
	m, _ := cloud(n)
	scanPrimitives(m, n)
}

func ZZ_C10_ScanPrimitivesTriangles() {
	n := zz.Choose("n", zz.Bound("N")+1)
	scanPrimitives(triangles(n), n)
}

func ZZ_C10_ScanFloat3() {
	n := zz.Choose("n", zz.Bound("N")+1)
	zz.Assume(n > 0)
	m, pos := cloud(n)
	pool := zz.Int("pool", 1, zz.Bound("POOL"))
	zz.Reach("input")
	counts := make([]int, n+1)
	own := make([]bool, n+1)
	m.ScanFloat3AttributeParallelWithPoolSize(modeling.PositionAttribute, pool, func(i int, v vector3.Float64) {
		if i >= 0 && i < n {
			counts[i]++
			own[i] = v.X() == pos[i].X()
		} else {
			counts[n]++
		}
	})
	for i := 0; i < n; i++ {
		zz.Assert(counts[i] == 1, "parallel attribute scan visits every element exactly once")
		zz.Assert(zz.Implies(counts[i] == 1, own[i]), "parallel attribute scan passes each index its own element")
	}
	zz.Assert(counts[n] == 0, "parallel attribute scan passes only valid indices")
	zz.Reach("done")
}

func ZZ_C10_ModifyFloat3() {
	n := zz.Choose("n", zz.Bound("N")+1)
	zz.Assume(n > 0)
	m, _ := cloud(n)
	pool := zz.Int("pool", 1, zz.Bound("POOL"))
	d := vector3.New(zz.Float64("d.x"), zz.Float64("d.y"), zz.Float64("d.z"))
	f := func(i int, v vector3.Float64) vector3.Float64 { return v.Add(d).Scale(float64(i + 1)) }
	zz.Reach("input")
	par := m.ModifyFloat3AttributeParallelWithPoolSize(modeling.PositionAttribute, pool, f)
	seq := m.ModifyFloat3Attribute(modeling.PositionAttribute, f)
	a, b := par.Float3Attribute(modeling.PositionAttribute), seq.Float3Attribute(modeling.PositionAttribute)
	zz.Assert(a.Len() == b.Len(), "parallel modify keeps the length")
	if a.Len() == b.Len() {
		for i := 0; i < a.Len(); i++ {
			zz.AssertNear(a.At(i).X(), b.At(i).X(), "parallel modify equals sequential modify (x)")
			zz.AssertNear(a.At(i).Y(), b.At(i).Y(), "parallel modify equals sequential modify (y)")
			zz.AssertNear(a.At(i).Z(), b.At(i).Z(), "parallel modify equals sequential modify (z)")
		}
	}
	zz.Reach("done")
}
