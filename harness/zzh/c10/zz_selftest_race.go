package c10

import (
	"sync"

	zz "github.com/EliCDavis/polyform/zzverif"
)

// Deliberately racy: two workers whose symbolic index ranges may overlap. The happens-before monitor
// must report a data race (used only by checks/selftest.json).
func ZZ_SelfTest_Race() {
	n := 4
	cut := zz.Int("cut", 1, 3)
	overlap := zz.Int("overlap", 0, 1)
	data := make([]int, n)
	var wg sync.WaitGroup
	wg.Add(2)
	go func() {
		defer wg.Done()
		for i := 0; i < cut+overlap; i++ {
			data[i] = 1
		}
	}()
	go func() {
		defer wg.Done()
		for i := cut; i < n; i++ {
			data[i] = 2
		}
	}()
	wg.Wait()
	zz.Reach("done")
}
