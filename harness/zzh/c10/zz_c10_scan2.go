package c10

import (
	"fmt"

	"github.com/EliCDavis/polyform/modeling"
	zz "github.com/EliCDavis/polyform/zzverif"
	"github.com/EliCDavis/vector/vector2"
	"github.com/EliCDavis/vector/vector3"
)

// a mesh carrying one float1, one float2 and one float3 attribute of n elements each (point topology).
func mixedCloud(n int) (modeling.Mesh, []float64, []vector2.Float64) {
	pos := make([]vector3.Float64, n)
	f1 := make([]float64, n)
	f2 := make([]vector2.Float64, n)
	for i := 0; i < n; i++ {
		f1[i] = zz.Float64(fmt.Sprintf("s%d", i))
		f2[i] = vector2.New(zz.Float64(fmt.Sprintf("u%d.x", i)), zz.Float64(fmt.Sprintf("u%d.y", i)))
	}
	m := modeling.NewPointCloud(nil, map[string][]vector3.Float64{modeling.PositionAttribute: pos},
		map[string][]vector2.Float64{modeling.TexCoordAttribute: f2}, map[string][]float64{"scalar": f1}, nil)
	return m, f1, f2
}

// the pool size comes either from the caller or, through the variants without an explicit size, from runtime.NumCPU
// (a symbolic value between the NumCPUMin and NumCPUMax bounds).
func poolChoice() (explicit bool, pool int) {
	if zz.Bool("explicit pool") {
		return true, zz.Int("pool", 1, zz.Bound("POOL"))
	}
	return false, 0
}

func ZZ_C10_ScanFloat2() {
	n := zz.Choose("n", zz.Bound("N")+1)
	zz.Assume(n > 0)
	m, _, f2 := mixedCloud(n)
	explicit, pool := poolChoice()
	zz.Reach("input")
	counts := make([]int, n+1)
	own := make([]bool, n+1)
	cb := func(i int, v vector2.Float64) {
		if i >= 0 && i < n {
			counts[i]++
			own[i] = v.X() == f2[i].X() && v.Y() == f2[i].Y()
		} else {
			counts[n]++
		}
	}
	if explicit {
		m.ScanFloat2AttributeParallelWithPoolSize(modeling.TexCoordAttribute, pool, cb)
	} else {
		m.ScanFloat2AttributeParallel(modeling.TexCoordAttribute, cb)
	}
	for i := 0; i < n; i++ {
		zz.Assert(counts[i] == 1, "parallel float2 scan visits every element exactly once")
		zz.Assert(zz.Implies(counts[i] == 1, own[i]), "parallel float2 scan passes each index its own element")
	}
	zz.Assert(counts[n] == 0, "parallel float2 scan passes only valid indices")
	zz.Reach("done")
}

func ZZ_C10_ScanFloat1() {
	n := zz.Choose("n", zz.Bound("N")+1)
	zz.Assume(n > 0)
	m, f1, _ := mixedCloud(n)
	explicit, pool := poolChoice()
	zz.Reach("input")
	counts := make([]int, n+1)
	own := make([]bool, n+1)
	cb := func(i int, v float64) {
		if i >= 0 && i < n {
			counts[i]++
			own[i] = v == f1[i]
		} else {
			counts[n]++
		}
	}
	if explicit {
		m.ScanFloat1AttributeParallelWithPoolSize("scalar", pool, cb)
	} else {
		m.ScanFloat1AttributeParallel("scalar", cb)
	}
	for i := 0; i < n; i++ {
		zz.Assert(counts[i] == 1, "parallel float1 scan visits every element exactly once")
		zz.Assert(zz.Implies(counts[i] == 1, own[i]), "parallel float1 scan passes each index its own element")
	}
	zz.Assert(counts[n] == 0, "parallel float1 scan passes only valid indices")
	zz.Reach("done")
}

func ZZ_C10_ModifyFloat2() {
	n := zz.Choose("n", zz.Bound("N")+1)
	zz.Assume(n > 0)
	m, _, _ := mixedCloud(n)
	explicit, pool := poolChoice()
	d := vector2.New(zz.Float64("d.x"), zz.Float64("d.y"))
	f := func(i int, v vector2.Float64) vector2.Float64 { return v.Add(d).Scale(float64(i + 1)) }
	zz.Reach("input")
	var par modeling.Mesh
	if explicit {
		par = m.ModifyFloat2AttributeParallelWithPoolSize(modeling.TexCoordAttribute, pool, f)
	} else {
		par = m.ModifyFloat2AttributeParallel(modeling.TexCoordAttribute, f)
	}
	seq := m.ModifyFloat2Attribute(modeling.TexCoordAttribute, f)
	a, b := par.Float2Attribute(modeling.TexCoordAttribute), seq.Float2Attribute(modeling.TexCoordAttribute)
	zz.Assert(a.Len() == b.Len(), "parallel float2 modify keeps the length")
	if a.Len() == b.Len() {
		for i := 0; i < a.Len(); i++ {
			zz.AssertNear(a.At(i).X(), b.At(i).X(), "parallel float2 modify equals sequential modify (x)")
			zz.AssertNear(a.At(i).Y(), b.At(i).Y(), "parallel float2 modify equals sequential modify (y)")
		}
	}
	// the source mesh and its other attributes are untouched
	s := m.Float1Attribute("scalar")
	t := par.Float1Attribute("scalar")
	zz.Assert(s.Len() == t.Len(), "parallel float2 modify keeps the other attributes")
	zz.Reach("done")
}

func ZZ_C10_ModifyFloat1() {
	n := zz.Choose("n", zz.Bound("N")+1)
	zz.Assume(n > 0)
	m, _, _ := mixedCloud(n)
	explicit, pool := poolChoice()
	d := zz.Float64("d")
	f := func(i int, v float64) float64 { return (v + d) * float64(i+1) }
	zz.Reach("input")
	var par modeling.Mesh
	if explicit {
		par = m.ModifyFloat1AttributeParallelWithPoolSize("scalar", pool, f)
	} else {
		par = m.ModifyFloat1AttributeParallel("scalar", f)
	}
	seq := m.ModifyFloat1Attribute("scalar", f)
	a, b := par.Float1Attribute("scalar"), seq.Float1Attribute("scalar")
	zz.Assert(a.Len() == b.Len(), "parallel float1 modify keeps the length")
	if a.Len() == b.Len() {
		for i := 0; i < a.Len(); i++ {
			zz.AssertNear(a.At(i), b.At(i), "parallel float1 modify equals sequential modify")
		}
	}
	zz.Reach("done")
}

// line strips: n points give n-1 line primitives; NumCPU variant of the primitive and float3 scans.
func ZZ_C10_ScanPrimitivesLinesNumCPU() {
	n := zz.Choose("n", zz.Bound("N")+1)
	zz.Assume(n >= 2)
	pos := make([]vector3.Float64, n)
	for i := range pos {
		pos[i] = vector3.New(zz.Float64(fmt.Sprintf("p%d.x", i)), 0, 0)
	}
	m := modeling.NewLineStripMesh(map[string][]vector3.Float64{modeling.PositionAttribute: pos}, nil, nil, nil)
	prims := m.PrimitiveCount()
	zz.Reach("input")
	counts := make([]int, prims+1)
	cb := func(i int, p modeling.Primitive) {
		if i >= 0 && i < prims {
			counts[i]++
		} else {
			counts[prims]++
		}
	}
	if zz.Bool("explicit pool") {
		m.ScanPrimitivesParallelWithPoolSize(zz.Int("pool", 1, zz.Bound("POOL")), cb)
	} else {
		m.ScanPrimitivesParallel(cb)
	}
	seq := 0
	m.ScanPrimitives(func(i int, p modeling.Primitive) { seq++ })
	zz.Assert(seq == prims, "sequential scan visits PrimitiveCount primitives")
	for i := 0; i < prims; i++ {
		zz.Assert(counts[i] == 1, "parallel line-strip scan visits every primitive exactly once")
	}
	zz.Assert(counts[prims] == 0, "parallel line-strip scan passes only valid indices")
	zz.Reach("done")
}

// float3 scan and modify through the variants that take the pool size from runtime.NumCPU.
func ZZ_C10_Float3NumCPU() {
	n := zz.Choose("n", zz.Bound("N")+1)
	zz.Assume(n > 0)
	m, _ := cloud(n)
	zz.Reach("input")
	if zz.Bool("scan") {
		c3 := make([]int, n)
		m.ScanFloat3AttributeParallel(modeling.PositionAttribute, func(i int, v vector3.Float64) {
			if i >= 0 && i < n {
				c3[i]++
			}
		})
		for i := 0; i < n; i++ {
			zz.Assert(c3[i] == 1, "ScanFloat3AttributeParallel (NumCPU) visits every element exactly once")
		}
	} else {
		f := func(i int, v vector3.Float64) vector3.Float64 { return v.Scale(float64(i + 2)) }
		a := m.ModifyFloat3AttributeParallel(modeling.PositionAttribute, f).Float3Attribute(modeling.PositionAttribute)
		b := m.ModifyFloat3Attribute(modeling.PositionAttribute, f).Float3Attribute(modeling.PositionAttribute)
		zz.Assert(a.Len() == b.Len(), "ModifyFloat3AttributeParallel (NumCPU) keeps the length")
		if a.Len() == b.Len() {
			for i := 0; i < a.Len(); i++ {
				zz.AssertNear(a.At(i).X(), b.At(i).X(), "ModifyFloat3AttributeParallel (NumCPU) equals sequential modify")
			}
		}
	}
	zz.Reach("done")
}
