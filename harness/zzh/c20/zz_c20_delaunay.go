// Package c20: 2-D Delaunay triangulation (C20), decided over the reals.
package c20

import (
	"github.com/EliCDavis/polyform/modeling"
	"github.com/EliCDavis/polyform/modeling/triangulation"
	zz "github.com/EliCDavis/polyform/zzverif"
	"github.com/EliCDavis/vector/vector2"
)

// concrete base sets (rational coordinates): uniform, clustered, near-collinear hull, offset from the origin,
// widely different scales
var bases = [][]vector2.Float64{
	{vector2.New(0., 0.), vector2.New(4., 0.), vector2.New(1., 3.)},
	{vector2.New(0., 0.), vector2.New(1., 0.25), vector2.New(2., 0.), vector2.New(1., 2.)},
	// a sliver first (its circumcircle has radius 32), then a point inside that circle but far from the sliver
	{vector2.New(0., 0.), vector2.New(4., 0.25), vector2.New(8., 0.), vector2.New(4., -20.)},
	{vector2.New(100., 100.), vector2.New(101., 100.5), vector2.New(100.5, 102.)},
	{vector2.New(0., 0.), vector2.New(0.125, 0.), vector2.New(0., 0.125), vector2.New(8., 8.)},
	{vector2.New(0., 0.), vector2.New(3., 0.), vector2.New(3., 2.), vector2.New(0., 2.5), vector2.New(1.5, 1.)},
}

func orient(a, b, c vector2.Float64) float64 {
	return (b.X()-a.X())*(c.Y()-a.Y()) - (c.X()-a.X())*(b.Y()-a.Y())
}

// in-circle determinant of d w.r.t. triangle abc, positive iff d is strictly inside when abc is counter-clockwise
func incircle(a, b, c, d vector2.Float64) float64 {
	ax, ay := a.X()-d.X(), a.Y()-d.Y()
	bx, by := b.X()-d.X(), b.Y()-d.Y()
	cx, cy := c.X()-d.X(), c.Y()-d.Y()
	return (ax*ax+ay*ay)*(bx*cy-cx*by) - (bx*bx+by*by)*(ax*cy-cx*ay) + (cx*cx+cy*cy)*(ax*by-bx*ay)
}

func decideSign(x, eps float64) {
	if x > eps {
		return
	}
	if x < -eps {
		return
	}
	zz.Assume(false)
}

func ZZ_C20_Delaunay() {
	base := bases[zz.Choose("base", zz.Bound("BASES"))]
	s := vector2.New(zz.Float64("s.x"), zz.Float64("s.y"))
	at := len(base) - zz.Choose("insertAt", zz.Bound("POSITIONS")) // last position first
	var pts []vector2.Float64
	for i := 0; i <= len(base); i++ {
		if i == at {
			pts = append(pts, s)
		}
		if i < len(base) {
			pts = append(pts, base[i])
		}
	}
	n := len(pts)
	if zz.Bound("REGION") == 1 {
		// quick tier: the free point lies strictly inside the first base triangle (a conjunction of three
		// orientation constraints); the thorough tier lets it range over the whole plane
		a, b, c := base[0], base[1], base[2]
		if orient(a, b, c) > 0 {
			zz.Assume(orient(a, b, s) > 0.01)
			zz.Assume(orient(b, c, s) > 0.01)
			zz.Assume(orient(c, a, s) > 0.01)
		} else {
			zz.Assume(orient(a, b, s) < -0.01)
			zz.Assume(orient(b, c, s) < -0.01)
			zz.Assume(orient(c, a, s) < -0.01)
		}
	}
	// general position with a margin: distinct, no three collinear, no four co-circular
	eps := 1e-3
	for i := 0; i < n; i++ {
		for j := i + 1; j < n; j++ {
			for k := j + 1; k < n; k++ {
				if i != at && j != at && k != at {
					continue
				}
				// the sign of every predicate involving the free point is decided by forking, so that each
				// path condition is a pure conjunction of polynomial inequalities (disjunctions make nlsat
				// time out at 30 s; conjunctions in two variables are decided in milliseconds)
				decideSign(orient(pts[i], pts[j], pts[k]), eps)
				for l := k + 1; l < n; l++ {
					decideSign(incircle(pts[i], pts[j], pts[k], pts[l]), eps)
				}
			}
		}
	}
	zz.Reach("input")
	// the caller's slice may have spare capacity (the implementation appends its enclosing triangle to a copy -
	// or, with capacity to spare, possibly into the caller's backing array); every oracle below reads the
	// points as they were before the call
	spare := []int{0, 3, 8}[zz.Choose("spare capacity", zz.Bound("SPARES"))]
	arg := make([]vector2.Float64, n, n+spare)
	copy(arg, pts)
	m := triangulation.BowyerWatson(arg)
	zz.Reach("triangulated")
	pos := m.Float3Attribute(modeling.PositionAttribute)
	zz.Assert(pos.Len() == n, "one vertex per input point")
	if pos.Len() != n {
		return
	}
	for i := 0; i < n; i++ {
		zz.AssertNear(pos.At(i).X(), pts[i].X(), "vertex i is input point i (x)")
		zz.AssertNear(pos.At(i).Z(), pts[i].Y(), "vertex i is input point i (y)")
		zz.AssertNear(pos.At(i).Y(), 0, "vertices lie in the y = 0 plane")
	}
	idx := m.Indices()
	T := idx.Len() / 3
	zz.Assert(idx.Len()%3 == 0, "index count is a multiple of three")
	zz.Assert(T >= 1, "at least one triangle for points in general position")
	firstCCW := false
	for t := 0; t < T; t++ {
		a, b, c := idx.At(3*t), idx.At(3*t+1), idx.At(3*t+2)
		zz.Assert(a >= 0 && a < n && b >= 0 && b < n && c >= 0 && c < n, "only input points are used as vertices")
		if !(a >= 0 && a < n && b >= 0 && b < n && c >= 0 && c < n) {
			return
		}
		o := orient(pts[a], pts[b], pts[c])
		zz.Assert(zz.Or(o > 0, o < 0), "every triangle has non-zero area")
		ccw := o > 0
		if t == 0 {
			firstCCW = ccw
		} else {
			zz.Assert(ccw == firstCCW, "all triangles have the same winding")
		}
		for d := 0; d < n; d++ {
			if d == a || d == b || d == c {
				continue
			}
			ic := incircle(pts[a], pts[b], pts[c], pts[d])
			// strictly inside <=> ic and the orientation have the same sign
			zz.Assert(ic*o <= 0, "no input point lies strictly inside a triangle's circumcircle")
		}
	}
	// no two triangles overlap: no vertex of the set lies strictly inside another triangle
	for t := 0; t < T; t++ {
		a, b, c := idx.At(3*t), idx.At(3*t+1), idx.At(3*t+2)
		for d := 0; d < n; d++ {
			if d == a || d == b || d == c {
				continue
			}
			o1, o2, o3 := orient(pts[a], pts[b], pts[d]), orient(pts[b], pts[c], pts[d]), orient(pts[c], pts[a], pts[d])
			inside := zz.Or(zz.And(o1 > 0, zz.And(o2 > 0, o3 > 0)), zz.And(o1 < 0, zz.And(o2 < 0, o3 < 0)))
			zz.Assert(!inside, "no input point lies strictly inside a triangle (triangles do not overlap)")
		}
	}
	zz.Reach("checked")
}
