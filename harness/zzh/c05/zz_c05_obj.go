// Package c05: OBJ write/read round trip (C05). Numbers in the text are opaque numeric tokens (stdlib decimal
// round-trip contract); the structure of the text is concrete per path.
package c05

import (
	"fmt"

	"github.com/EliCDavis/polyform/formats/obj"
	"github.com/EliCDavis/polyform/modeling"
	zz "github.com/EliCDavis/polyform/zzverif"
	"github.com/EliCDavis/vector/vector2"
	"github.com/EliCDavis/vector/vector3"
)

func f32(x float64) float64 { return float64(float32(x)) }

// sf: a symbolic double that is exactly representable as a float32. The text layer is abstracted by the
// stdlib contract ParseFloat(FormatFloat(x), 32) = float32(x), so rounding inside the solver would only
// re-verify the contract itself; exact float32 values keep the queries free of rounding logic.
func sf(name string) float64 { return float64(zz.Float32(name)) }

type src struct {
	mesh  modeling.Mesh
	mats  []string // material name per triangle ("" = none)
	name  string
	hasN  bool
	hasUV bool
}

func symMesh(name string, maxV, maxT int) src {
	V := 1 + zz.Choose(name+".V", maxV)
	T := 1 + zz.Choose(name+".T", maxT)
	mix := zz.Choose(name+".mix", 4) // 0 pos, 1 +normal, 2 +uv, 3 +normal+uv
	idx := make([]int, 3*T)
	for i := range idx {
		idx[i] = zz.Int(fmt.Sprintf("%s.idx[%d]", name, i), 0, V-1)
	}
	pos := make([]vector3.Float64, V)
	nrm := make([]vector3.Float64, V)
	uv := make([]vector2.Float64, V)
	for i := 0; i < V; i++ {
		pos[i] = vector3.New(sf(fmt.Sprintf("%s.p%d.x", name, i)), sf(fmt.Sprintf("%s.p%d.y", name, i)), sf(fmt.Sprintf("%s.p%d.z", name, i)))
		nrm[i] = vector3.New(sf(fmt.Sprintf("%s.n%d.x", name, i)), sf(fmt.Sprintf("%s.n%d.y", name, i)), sf(fmt.Sprintf("%s.n%d.z", name, i)))
		uv[i] = vector2.New(sf(fmt.Sprintf("%s.t%d.x", name, i)), sf(fmt.Sprintf("%s.t%d.y", name, i)))
	}
	m := modeling.NewTriangleMesh(idx).SetFloat3Attribute(modeling.PositionAttribute, pos)
	s := src{name: name, hasN: mix == 1 || mix == 3, hasUV: mix >= 2}
	if s.hasN {
		m = m.SetFloat3Attribute(modeling.NormalAttribute, nrm)
	}
	if s.hasUV {
		m = m.SetFloat2Attribute(modeling.TexCoordAttribute, uv)
	}
	// material partition: none, one range, or two ranges split at a symbolic point
	s.mats = make([]string, T)
	switch zz.Choose(name+".materials", 3) {
	case 1:
		m = m.SetMaterials([]modeling.MeshMaterial{{PrimitiveCount: T, Material: &modeling.Material{Name: name + "A"}}})
		for t := range s.mats {
			s.mats[t] = name + "A"
		}
	case 2:
		k := 1 + zz.Choose(name+".split", T) // first range holds k triangles, 1 <= k <= T
		m = m.SetMaterials([]modeling.MeshMaterial{{PrimitiveCount: k, Material: &modeling.Material{Name: name + "A"}}, {PrimitiveCount: T - k, Material: &modeling.Material{Name: name + "B"}}})
		for t := range s.mats {
			s.mats[t] = name + "A"
			if t >= k {
				s.mats[t] = name + "B"
			}
		}
	}
	s.mesh = m
	return s
}

// materialOf returns the material name in force for triangle t of a read mesh
func materialOf(m modeling.Mesh, t int) string {
	seen := 0
	for _, mm := range m.Materials() {
		if t < seen+mm.PrimitiveCount {
			if mm.Material == nil {
				return ""
			}
			return mm.Material.Name
		}
		seen += mm.PrimitiveCount
	}
	return ""
}

func ZZ_C05_WriteRead() {
	n := zz.Bound("MESHMIN") + zz.Choose("meshes", zz.Bound("MESHES")-zz.Bound("MESHMIN")+1)
	var srcs []src
	var in []obj.ObjMesh
	for k := 0; k < n; k++ {
		s := symMesh(fmt.Sprintf("m%d", k), zz.Bound("V"), zz.Bound("T"))
		srcs = append(srcs, s)
		in = append(in, obj.ObjMesh{Name: s.name, Mesh: s.mesh})
	}
	zz.Reach("input")
	buf := zz.NewBuf()
	err := obj.WriteMeshes(in, "", buf)
	zz.Assert(err == nil, "WriteMeshes failed")
	if err != nil {
		return
	}
	zz.Reach("written")
	out, _, err := obj.ReadMesh(buf.Reader(-1))
	zz.Assert(err == nil, "ReadMesh failed on the writer's own output")
	if err != nil {
		return
	}
	zz.Reach("read")
	zz.Assert(len(out) == n, "one group per mesh")
	if len(out) != n {
		return
	}
	for k := 0; k < n; k++ {
		s, g := srcs[k], out[k].Mesh
		zz.Assert(out[k].Name == s.name, "group name preserved")
		si, gi := s.mesh.Indices(), g.Indices()
		zz.Assert(gi.Len() == si.Len(), "same triangles, none lost or invented")
		if gi.Len() != si.Len() {
			return
		}
		sp, gp := s.mesh.Float3Attribute(modeling.PositionAttribute), g.Float3Attribute(modeling.PositionAttribute)
		zz.Assert(g.HasFloat3Attribute(modeling.NormalAttribute) == s.hasN, "normals present exactly when the mesh had them")
		zz.Assert(g.HasFloat2Attribute(modeling.TexCoordAttribute) == s.hasUV, "texture coordinates present exactly when the mesh had them")
		for c := 0; c < si.Len(); c++ {
			a, b := sp.At(si.At(c)), gp.At(gi.At(c))
			zz.Assert(b.X() == f32(a.X()) && b.Y() == f32(a.Y()) && b.Z() == f32(a.Z()), "corner position is the float32 image, in order")
			if s.hasN && g.HasFloat3Attribute(modeling.NormalAttribute) {
				x, y := s.mesh.Float3Attribute(modeling.NormalAttribute).At(si.At(c)), g.Float3Attribute(modeling.NormalAttribute).At(gi.At(c))
				zz.Assert(y.X() == f32(x.X()) && y.Y() == f32(x.Y()) && y.Z() == f32(x.Z()), "corner normal is the float32 image")
			}
			if s.hasUV && g.HasFloat2Attribute(modeling.TexCoordAttribute) {
				x, y := s.mesh.Float2Attribute(modeling.TexCoordAttribute).At(si.At(c)), g.Float2Attribute(modeling.TexCoordAttribute).At(gi.At(c))
				zz.Assert(y.X() == f32(x.X()) && y.Y() == f32(x.Y()), "corner texture coordinate is the float32 image")
			}
		}
		for t := 0; t < si.Len()/3; t++ {
			zz.Assert(materialOf(g, t) == s.mats[t], "every triangle keeps its material")
		}
	}
	zz.Reach("checked")
}

// load -> save -> load: any arrangement of g / usemtl / f statements (one corner syntax per file) loses or
// invents no face, and every face keeps its corner positions.
func ZZ_C05_ReadWriteRead() {
	syntax := zz.Choose("syntax", 4)
	text := "v 0 0 0\nv 1 0 0\nv 0 1 0\nv 0 0 1\nvt 0 0\nvt 1 0\nvt 0 1\nvn 0 0 1\nvn 0 1 0\nvn 1 0 0\n"
	corner := func(i int) string {
		switch syntax {
		case 1:
			return fmt.Sprintf("%d/%d", i, 1+i%3)
		case 2:
			return fmt.Sprintf("%d//%d", i, 1+i%3)
		case 3:
			return fmt.Sprintf("%d/%d/%d", i, 1+i%3, 1+(i+1)%3)
		}
		return fmt.Sprintf("%d", i)
	}
	faces := [][3]int{{1, 2, 3}, {1, 3, 4}, {2, 3, 4}, {1, 2, 4}}
	n := zz.Bound("STATEMENTS")
	var want [][3]int
	for s := 0; s < n; s++ {
		switch zz.Choose(fmt.Sprintf("stmt%d", s), 6) {
		case 0:
			text += "g a\n"
		case 1:
			text += "g b\n"
		case 2:
			text += "usemtl m1\n"
		case 3:
			text += "usemtl m2\n"
		default:
			f := faces[len(want)%len(faces)]
			want = append(want, f)
			text += "f " + corner(f[0]) + " " + corner(f[1]) + " " + corner(f[2]) + "\n"
		}
	}
	zz.Assume(len(want) > 0)
	zz.Reach("input")
	first, _, err := obj.ReadMesh(&zz.Buf{B: []byte(text), Limit: -1})
	zz.Assert(err == nil, "ReadMesh failed on a valid OBJ text")
	if err != nil {
		return
	}
	count := func(ms []obj.ObjMesh) int {
		c := 0
		for _, m := range ms {
			c += m.Mesh.Indices().Len() / 3
		}
		return c
	}
	zz.Assert(count(first) == len(want), "loading keeps every face")
	buf := zz.NewBuf()
	err = obj.WriteMeshes(first, "", buf)
	zz.Assert(err == nil, "WriteMeshes failed on a loaded scene")
	if err != nil {
		return
	}
	second, _, err := obj.ReadMesh(buf.Reader(-1))
	zz.Assert(err == nil, "ReadMesh failed on the re-saved file")
	if err != nil {
		return
	}
	zz.Assert(count(second) == len(want), "saving a loaded OBJ and loading it again loses or invents no face")
	if count(second) != len(want) {
		return
	}
	pts := [][3]float64{{0, 0, 0}, {1, 0, 0}, {0, 1, 0}, {0, 0, 1}}
	k := 0
	for _, m := range second {
		if m.Mesh.Indices().Len() == 0 {
			continue // a group without faces carries no attributes
		}
		idx, pos := m.Mesh.Indices(), m.Mesh.Float3Attribute(modeling.PositionAttribute)
		for t := 0; t < idx.Len()/3; t++ {
			for c := 0; c < 3; c++ {
				p := pos.At(idx.At(3*t + c))
				w := pts[want[k][c]-1]
				zz.Assert(p.X() == w[0] && p.Y() == w[1] && p.Z() == w[2], "every face keeps its corner positions, in order")
			}
			k++
		}
	}
	zz.Reach("checked")
}
