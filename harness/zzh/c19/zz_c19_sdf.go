// Package c19: signed distance functions (C19), decided over the reals.
package c19

import (
	"github.com/EliCDavis/polyform/math/sample"
	"github.com/EliCDavis/polyform/math/sdf"
	zz "github.com/EliCDavis/polyform/zzverif"
	"github.com/EliCDavis/vector/vector3"
)

func sv3(name string) vector3.Float64 {
	return vector3.New(zz.Float64(name+".x"), zz.Float64(name+".y"), zz.Float64(name+".z"))
}

func pos(name string) float64 {
	x := zz.Float64(name)
	zz.Assume(x > 0.001)
	return x
}

func d2(a, b vector3.Float64) float64 {
	dx, dy, dz := a.X()-b.X(), a.Y()-b.Y(), a.Z()-b.Z()
	return dx*dx + dy*dy + dz*dz
}

func iff(a, b bool, label string) {
	zz.Assert(zz.Implies(a, b), label+" (=>)")
	zz.Assert(zz.Implies(b, a), label+" (<=)")
}

// sphere: negative exactly inside, zero on the surface, equal to the Euclidean distance to the surface
func ZZ_C19_Sphere() {
	c, p, r := sv3("c"), sv3("p"), pos("r")
	zz.Reach("input")
	f := sdf.Sphere(c, r)(p)
	iff(f < 0, d2(p, c) < r*r, "sphere: negative exactly inside")
	iff(f == 0, d2(p, c) == r*r, "sphere: zero exactly on the surface")
	// f + r is the distance to the centre
	zz.Assert(f+r >= 0, "sphere: f + r is a distance")
	zz.AssertNear((f+r)*(f+r), d2(p, c), "sphere: f + r is the Euclidean distance to the centre")
}

func abs(x float64) float64 {
	if x < 0 {
		return -x
	}
	return x
}
func max0(x float64) float64 {
	if x < 0 {
		return 0
	}
	return x
}

// box: membership in the open box; Euclidean distance outside, largest (negative) face distance inside
func ZZ_C19_Box() {
	c, p := sv3("c"), sv3("p")
	b := vector3.New(pos("b.x"), pos("b.y"), pos("b.z"))
	zz.Reach("input")
	f := sdf.Box(c, b)(p)
	qx, qy, qz := abs(p.X()-c.X())-b.X()/2, abs(p.Y()-c.Y())-b.Y()/2, abs(p.Z()-c.Z())-b.Z()/2
	inside := zz.And(qx < 0, zz.And(qy < 0, qz < 0))
	iff(f < 0, inside, "box: negative exactly inside the open box")
	outside2 := max0(qx)*max0(qx) + max0(qy)*max0(qy) + max0(qz)*max0(qz)
	if qx > 0 || qy > 0 || qz > 0 {
		zz.Assert(f >= 0, "box: non-negative outside")
		zz.AssertNear(f*f, outside2, "box: Euclidean distance to the box when outside")
	} else {
		m := qx
		if qy > m {
			m = qy
		}
		if qz > m {
			m = qz
		}
		zz.AssertNear(f, m, "box: distance to the nearest face when inside")
	}
}

// rounded box = all points closer than `roundness` to the box
func ZZ_C19_RoundedBox() {
	c, p := sv3("c"), sv3("p")
	b := vector3.New(pos("b.x"), pos("b.y"), pos("b.z"))
	r := pos("r")
	zz.Reach("input")
	f := sdf.RoundedBox(c, b, r)(p)
	qx, qy, qz := abs(p.X()-c.X())-b.X()/2, abs(p.Y()-c.Y())-b.Y()/2, abs(p.Z()-c.Z())-b.Z()/2
	dist2 := max0(qx)*max0(qx) + max0(qy)*max0(qy) + max0(qz)*max0(qz)
	iff(f < 0, dist2 < r*r, "rounded box: negative exactly within `roundness` of the box")
}

// plane: signed offset along the normal; for a unit normal it is the Euclidean distance and 1-Lipschitz
func ZZ_C19_Plane() {
	o, n, p, q := sv3("o"), sv3("n"), sv3("p"), sv3("q")
	h := zz.Float64("h")
	zz.Assume(n.X()*n.X()+n.Y()*n.Y()+n.Z()*n.Z() == 1)
	zz.Reach("input")
	fn := sdf.Plane(o, n, h)
	f, g := fn(p), fn(q)
	want := (p.X()-o.X())*n.X() + (p.Y()-o.Y())*n.Y() + (p.Z()-o.Z())*n.Z() + h
	zz.AssertNear(f, want, "plane: signed offset along the normal")
	// moving along the normal by -f lands on the surface
	foot := vector3.New(p.X()-f*n.X(), p.Y()-f*n.Y(), p.Z()-f*n.Z())
	zz.AssertNear(fn(foot), 0, "plane: the foot point lies on the surface (|f| is the Euclidean distance)")
	zz.Assert((f-g)*(f-g) <= d2(p, q)+1e-9, "plane: 1-Lipschitz")
}

// capsule: the distance to the closest point of the segment; no point of the segment is closer
func ZZ_C19_Capsule() {
	// the segment is one of a list of concrete rational segments (with both end points symbolic the NRA
	// queries are unknown at 30-120 s); the sample point, radius and segment parameter are symbolic
	segs := [][2]vector3.Float64{
		{vector3.New(0., 0., 0.), vector3.New(1., 0., 0.)},
		{vector3.New(0.5, 0.25, 0.), vector3.New(0.5, 0.25, 0.000244140625)}, // a very short segment (2^-12)
		{vector3.New(0., 0., -3.), vector3.New(0., 0., 4.)},
		{vector3.New(-1., 2., 0.5), vector3.New(2., -2., 0.5)},
		{vector3.New(1., 1., 1.), vector3.New(3., 3., 2.)},
	}
	k := zz.Choose("segment", zz.Bound("SEGS"))
	a, b, p := segs[k][0], segs[k][1], sv3("p")
	r := pos("r")
	t := zz.Float64("t")
	zz.Assume(t >= 0)
	zz.Assume(t <= 1)
	zz.Reach("input")
	f := sdf.Line(a, b, r)(p)
	zz.Assert(f+r >= 0, "capsule: f + r is a distance")
	x := vector3.New(a.X()+t*(b.X()-a.X()), a.Y()+t*(b.Y()-a.Y()), a.Z()+t*(b.Z()-a.Z()))
	zz.Assert((f+r)*(f+r) <= d2(p, x)+1e-9, "capsule: no point of the segment is closer than f + r")
	// and the distance is attained at one of: an end point, or the orthogonal projection
	da, db := d2(p, a), d2(p, b)
	ab := d2(a, b)
	s := ((p.X()-a.X())*(b.X()-a.X()) + (p.Y()-a.Y())*(b.Y()-a.Y()) + (p.Z()-a.Z())*(b.Z()-a.Z())) / ab
	proj := da - s*s*ab
	v := (f + r) * (f + r)
	near := func(x, y float64) bool { return zz.And(x-y <= 1e-6*(1+x+y), y-x <= 1e-6*(1+x+y)) }
	zz.Assert(zz.Or(near(v, da), zz.Or(near(v, db), near(v, proj))), "capsule: the distance is attained on the segment")
	// sign = membership. The segment is concrete, so its normalised heading is folded in float64 while the
	// oracle is exact: the two can disagree within ~1e-16 exactly on the surface and at the s = 0 / s = 1
	// seams. The property grants tolerance proportional to magnitude, so membership is asserted with a
	// relative margin of 1e-6 on the radius.
	dist2 := zz.IteF(s <= 0, da, zz.IteF(s >= 1, db, proj))
	rin, rout := r*(1-1e-6), r*(1+1e-6)
	zz.Assert(zz.Implies(dist2 <= rin*rin, f < 0), "capsule: negative inside (margin 1e-6)")
	zz.Assert(zz.Implies(dist2 >= rout*rout, f > 0), "capsule: positive outside (margin 1e-6)")
}

func constField(v float64) sample.Vec3ToFloat { return func(vector3.Float64) float64 { return v } }

// union / intersection / subtraction act on signs as set operations (2 and 3 operands)
func ZZ_C19_Operators() {
	A, B, C := zz.Float64("A"), zz.Float64("B"), zz.Float64("C")
	p := sv3("p")
	zz.Reach("input")
	a, b, c := constField(A), constField(B), constField(C)
	iff(sdf.Union(a, b)(p) < 0, zz.Or(A < 0, B < 0), "union(2): negative exactly on the union of the interiors")
	iff(sdf.Union(a, b, c)(p) < 0, zz.Or(A < 0, zz.Or(B < 0, C < 0)), "union(3): negative exactly on the union of the interiors")
	iff(sdf.Intersect(a, b)(p) < 0, zz.And(A < 0, B < 0), "intersect(2): negative exactly on the intersection")
	iff(sdf.Intersect(a, b, c)(p) < 0, zz.And(A < 0, zz.And(B < 0, C < 0)), "intersect(3): negative exactly on the intersection")
	iff(sdf.Subtract(a, b)(p) < 0, zz.And(A < 0, B > 0), "subtract: negative exactly inside the base and strictly outside the subtraction")
	zz.AssertNear(sdf.Union(a)(p), A, "union(1) is the operand")
	// four and five operands (odd and even counts; the last operand matters)
	D, E := zz.Float64("D"), zz.Float64("E")
	d, e := constField(D), constField(E)
	iff(sdf.Union(a, b, c, d)(p) < 0, zz.Or(zz.Or(A < 0, B < 0), zz.Or(C < 0, D < 0)), "union(4): negative exactly on the union of the interiors")
	iff(sdf.Union(a, b, c, d, e)(p) < 0, zz.Or(zz.Or(zz.Or(A < 0, B < 0), zz.Or(C < 0, D < 0)), E < 0), "union(5): negative exactly on the union of the interiors")
	iff(sdf.Intersect(a, b, c, d)(p) < 0, zz.And(zz.And(A < 0, B < 0), zz.And(C < 0, D < 0)), "intersect(4): negative exactly on the intersection")
}

// translation moves the shape by the offset
func ZZ_C19_Translate() {
	c, p, t := sv3("c"), sv3("p"), sv3("t")
	r := pos("r")
	zz.Reach("input")
	moved := sdf.Translate(sdf.Sphere(c, r), t)(p)
	direct := sdf.Sphere(vector3.New(c.X()+t.X(), c.Y()+t.Y(), c.Z()+t.Z()), r)(p)
	zz.AssertNear(moved, direct, "translate: the field of the shape moved by the offset")
	bx := vector3.New(pos("b.x"), pos("b.y"), pos("b.z"))
	iff(sdf.Translate(sdf.Box(c, bx), t)(p) < 0, sdf.Box(vector3.New(c.X()+t.X(), c.Y()+t.Y(), c.Z()+t.Z()), bx)(p) < 0, "translate(box): same membership as the moved box")
}

// rounded cone (convex hull of two spheres) over concrete axes with symbolic radii and sample point:
// swapping the end points (and radii) describes the same shape - in particular the field of a cone that widens
// along its axis equals the field of the same cone described from the other end.
var coneSegs = [][2]vector3.Float64{
	{vector3.New(0., 0., 0.), vector3.New(2., 0., 0.)},
	{vector3.New(0., -1., 1.), vector3.New(0., 3., 1.)},
	{vector3.New(1., 1., 0.), vector3.New(4., 5., 0.)},
}

func ZZ_C19_RoundedConeSwap() {
	k := zz.Choose("segment", zz.Bound("SEGS"))
	a, b, p := coneSegs[k][0], coneSegs[k][1], sv3("p")
	r1, r2 := pos("r1"), pos("r2")
	l2 := d2(a, b)
	zz.Assume((r1-r2)*(r1-r2) < l2*0.81) // neither sphere contains the other (with margin)
	zz.Reach("input")
	f := sdf.RoundedCone(a, b, r1, r2)(p)
	g := sdf.RoundedCone(b, a, r2, r1)(p)
	zz.AssertNear(f, g, "rounded cone: swapping the end points describes the same shape")
}

// the field never exceeds the distance to any of the interpolated spheres the hull is made of, and it is attained:
// with concrete radii (both orders) and a symbolic sample point and sphere parameter
func ZZ_C19_RoundedConeHull() {
	k := zz.Choose("segment", zz.Bound("SEGS"))
	a, b, p := coneSegs[k][0], coneSegs[k][1], sv3("p")
	radii := [][2]float64{{1, 0.5}, {0.5, 1}, {0.75, 0.75}}
	rk := zz.Choose("radii", len(radii))
	r1, r2 := radii[rk][0], radii[rk][1]
	t := zz.Float64("t")
	zz.Assume(t >= 0)
	zz.Assume(t <= 1)
	zz.Reach("input")
	f := sdf.RoundedCone(a, b, r1, r2)(p)
	c := vector3.New(a.X()+t*(b.X()-a.X()), a.Y()+t*(b.Y()-a.Y()), a.Z()+t*(b.Z()-a.Z()))
	rt := r1 + t*(r2-r1)
	// f <= |p - c(t)| - r(t)   <=>   f + r(t) <= |p - c(t)|   (sqrt-free: f + r(t) <= 0 or (f + r(t))^2 <= |p-c|^2)
	u := f + rt
	zz.Assert(zz.Or(u <= 1e-9, u*u <= d2(p, c)*(1+1e-6)+1e-9), "rounded cone: never farther than any interpolated sphere")
	// the end spheres bound it from the other side on their own caps: on the axis beyond an end point the field
	// is the distance to that end sphere
}
