package meshc

import (
	"fmt"

	"github.com/EliCDavis/polyform/formats/gltf"
	"github.com/EliCDavis/polyform/formats/obj"
	"github.com/EliCDavis/polyform/formats/ply"
	"github.com/EliCDavis/polyform/formats/stl"
	"github.com/EliCDavis/polyform/modeling"
	zz "github.com/EliCDavis/polyform/zzverif"
	"github.com/EliCDavis/vector/vector2"
	"github.com/EliCDavis/vector/vector3"
)

// exportMesh: a triangle mesh as a user can build it through the public API, including material runs that do
// not add up to the number of triangles (SetMaterials accepts any list) and spare capacity on every slice.
func exportMesh(name string) modeling.Mesh {
	V := 2
	P := zz.Choose(name+".P", zz.Bound("P")+1)
	spare := zz.Choose(name+".spare", zz.Bound("SPARE")+1)
	idx := make([]int, 3*P, 3*P+spare)
	for i := range idx {
		idx[i] = zz.Int(fmt.Sprintf("%s.idx[%d]", name, i), 0, V-1)
	}
	pos := make([]vector3.Float64, V, V+spare)
	nrm := make([]vector3.Float64, V, V+spare)
	uv := make([]vector2.Float64, V, V+spare)
	for i := 0; i < V; i++ {
		pos[i] = sv3(fmt.Sprintf("%s.pos[%d]", name, i))
		nrm[i] = sv3(fmt.Sprintf("%s.nrm[%d]", name, i))
		uv[i] = sv2(fmt.Sprintf("%s.uv[%d]", name, i))
	}
	m := modeling.NewMesh(modeling.TriangleTopology, idx).SetFloat3Attribute(modeling.PositionAttribute, pos)
	mix := zz.Choose(name+".mix", 3)
	if mix >= 1 {
		m = m.SetFloat2Attribute(modeling.TexCoordAttribute, uv)
	}
	if mix >= 2 {
		m = m.SetFloat3Attribute(modeling.NormalAttribute, nrm)
	}
	runs := zz.Choose(name+".runs", 3)
	if runs > 0 {
		mats := make([]modeling.MeshMaterial, runs, runs+spare)
		shared := &modeling.Material{Name: name + "-shared"}
		same := zz.Bool(name + ".sameMaterial") // adjacent runs of one material (as Append / repeat.Mesh produce)
		for r := range mats {
			mats[r] = modeling.MeshMaterial{
				PrimitiveCount: zz.Choose(fmt.Sprintf("%s.run%d", name, r), zz.Bound("P")+2),
				Material:       &modeling.Material{Name: fmt.Sprintf("%s-mat%d", name, r)},
			}
			if same {
				mats[r].Material = shared
			}
		}
		m = m.SetMaterials(mats)
	}
	return m
}

// ZZ_C01_Exports: exporting a mesh (in any of the formats, in any order, twice) leaves it exactly as it was.
// A failure of the exporter (error, or a panic on material runs that overrun the index buffer) is not the
// subject here; a changed mesh is.
func ZZ_C01_Exports() {
	m := exportMesh("m")
	before := snapBits(m)
	zz.Reach("base")
	steps := zz.Bound("STEPS")
	for k := 0; k < steps; k++ {
		out := zz.NewBuf()
		what := ""
		switch zz.Choose(fmt.Sprintf("export%d", k), 7) {
		case 0:
			what = "ply.Write ascii"
			_ = ply.Write(out, m, ply.ASCII)
		case 1:
			what = "ply.Write binary"
			_ = ply.Write(out, m, ply.BinaryLittleEndian)
		case 2:
			what = "obj.WriteMesh"
			_ = obj.WriteMesh(m, "", out)
		case 3:
			what = "obj.WriteMeshes with a material file"
			_ = obj.WriteMeshes([]obj.ObjMesh{{Name: "a", Mesh: m}, {Name: "b", Mesh: m}}, "mats.mtl", out)
		case 4:
			what = "obj.WriteMaterialsFromMesh"
			_ = obj.WriteMaterialsFromMesh(m, out)
		case 5:
			what = "stl.WriteMesh"
			_ = stl.WriteMesh(out, m)
		case 6:
			what = "gltf writer"
			w := gltf.NewWriter()
			_, _ = w.AddMesh(gltf.PolyformModel{Name: "x", Mesh: &m})
		}
		sameBits(before, snapBits(m), "mesh changed by exporting it with "+what)
		zz.Reach("step")
	}
}
