package meshc

import (
	"github.com/EliCDavis/polyform/math/geometry"
	"github.com/EliCDavis/polyform/modeling"
	"github.com/EliCDavis/polyform/modeling/meshops"
	zz "github.com/EliCDavis/polyform/zzverif"
	"github.com/EliCDavis/vector/vector3"
)

func ZZ_C02_Unweld() {
	m := triMesh("m")
	zz.Reach("input")
	WF(meshops.Unweld(m), "Unweld")
}

func ZZ_C02_UnweldPoints() {
	m := pointMesh("m")
	zz.Reach("input")
	WF(meshops.Unweld(m), "Unweld(points)")
}

func ZZ_C02_RemoveUnreferenced() {
	m := triMesh("m")
	zz.Reach("input")
	WF(meshops.RemovedUnreferencedVertices(m), "RemovedUnreferencedVertices")
}

func ZZ_C02_RemoveUnreferencedPoints() {
	m := pointMesh("m")
	zz.Reach("input")
	WF(meshops.RemovedUnreferencedVertices(m), "RemovedUnreferencedVertices(points)")
}

func ZZ_C02_Flip() {
	m := triMesh("m")
	zz.Reach("input")
	WF(meshops.FlipTriangleWinding(m), "FlipTriangleWinding")
}

func ZZ_C02_Append() {
	a := triMesh("a")
	b := triMesh("b")
	zz.Reach("input")
	WF(a.Append(b), "Append")
}

func ZZ_C02_AppendPoints() {
	a := pointMesh("a")
	b := pointMesh("b")
	zz.Reach("input")
	WF(a.Append(b), "Append(points)")
}

func ZZ_C02_ToPointCloud() {
	m := triMesh("m")
	zz.Reach("input")
	WF(m.ToPointCloud(), "ToPointCloud")
}

func ZZ_C02_FilterFloat3Points() {
	m := pointMesh("m")
	zz.Assume(m.HasFloat3Attribute(modeling.PositionAttribute))
	zz.Reach("input")
	k := 0
	r := meshops.FilterFloat3(m, modeling.PositionAttribute, func(v vector3.Float64) bool {
		k++
		return zz.Bool("keep" + string(rune('0'+k)))
	})
	WF(r, "FilterFloat3(points)")
}

func ZZ_C02_FilterFloat1Points() {
	m := pointMesh("m")
	zz.Assume(m.HasFloat1Attribute(atrV1))
	zz.Reach("input")
	k := 0
	r := meshops.FilterFloat1(m, atrV1, func(v float64) bool {
		k++
		return zz.Bool("keep" + string(rune('0'+k)))
	})
	WF(r, "FilterFloat1(points)")
}

func ZZ_C02_CropPoints() {
	PosMode = 2
	m := pointMesh("m")
	zz.Assume(m.HasFloat3Attribute(modeling.PositionAttribute))
	zz.Reach("input")
	// a concrete box and symbolic coordinates: which points fall inside is decided by the solver, while the
	// box's own centre/extents arithmetic stays concrete (64-bit fp.div is out of the solvers' reach)
	box := geometry.NewAABBFromPoints(vector3.New(-1., -1., -1.), vector3.New(1., 1., 1.))
	WF(meshops.CropFloat3Attribute(m, modeling.PositionAttribute, box), "CropFloat3Attribute")
}

func ZZ_C02_RemoveNullFaces() {
	PosMode = 1
	m := triMesh("m")
	zz.Assume(m.HasFloat3Attribute(modeling.PositionAttribute))
	zz.Reach("input")
	WF(meshops.RemoveNullFaces3D(m, modeling.PositionAttribute, 0), "RemoveNullFaces3D")
}

func ZZ_C02_Weld() {
	PosMode = 1
	m := triMesh("m")
	zz.Assume(m.HasFloat3Attribute(modeling.PositionAttribute))
	zz.Reach("input")
	WF(m.WeldByFloat3Attribute(modeling.PositionAttribute, 1), "WeldByFloat3Attribute")
}

func ZZ_C02_Split() {
	m := triMesh("m")
	T := m.PrimitiveCount()
	zz.Assume(T >= 1)
	// a symbolic partition of the T triangles into two ranges over two distinct materials (or the same one)
	k := zz.Int("split", 0, T)
	matA, matB := &modeling.Material{Name: "a"}, &modeling.Material{Name: "b"}
	second := matB
	if zz.Bool("sameMaterial") {
		second = matA
	}
	m = m.SetMaterials([]modeling.MeshMaterial{{PrimitiveCount: k, Material: matA}, {PrimitiveCount: T - k, Material: second}})
	zz.Reach("input")
	parts := meshops.SplitOnUniqueMaterials(m)
	for _, p := range parts {
		WF(p, "SplitOnUniqueMaterials")
	}
}
