package meshc

import (
	"fmt"

	"github.com/EliCDavis/polyform/math/quaternion"
	"github.com/EliCDavis/polyform/math/trs"
	"github.com/EliCDavis/polyform/modeling"
	"github.com/EliCDavis/polyform/modeling/meshops"
	"github.com/EliCDavis/polyform/modeling/repeat"
	zz "github.com/EliCDavis/polyform/zzverif"
	"github.com/EliCDavis/vector/vector2"
	"github.com/EliCDavis/vector/vector3"
)

// spareMesh: a well-formed triangle (or point) mesh whose every slice has symbolic spare capacity
// (len <= cap <= len+SPARE) - the representation left behind by an arbitrary earlier history.
// mix: 0 = position, 1 = position+uv, 2 = position+uv+material.
func spareMesh(name string, topo modeling.Topology, V, maxP int, mixes int, maxSpare int) modeling.Mesh {
	per := 3
	if topo == modeling.PointTopology {
		per = 1
	}
	P := zz.Choose(name+".P", maxP+1)
	mix := zz.Choose(name+".mix", mixes)
	idx := make([]int, P*per)
	for i := range idx {
		idx[i] = zz.Int(fmt.Sprintf("%s.idx[%d]", name, i), 0, V-1)
	}
	spare := 0
	if maxSpare > 0 {
		spare = zz.Choose(name+".spare", maxSpare+1)
	}
	withSpare3 := func(s []vector3.Float64) []vector3.Float64 {
		r := make([]vector3.Float64, len(s), len(s)+spare)
		copy(r, s)
		return r
	}
	idxS := make([]int, len(idx), len(idx)+spare)
	copy(idxS, idx)
	m := modeling.NewMesh(topo, idxS)
	pos := make([]vector3.Float64, V)
	uv := make([]vector2.Float64, V, V+spare)
	for i := 0; i < V; i++ {
		pos[i] = sv3(fmt.Sprintf("%s.pos[%d]", name, i))
		uv[i] = sv2(fmt.Sprintf("%s.uv[%d]", name, i))
	}
	m = m.SetFloat3Attribute(modeling.PositionAttribute, withSpare3(pos))
	if mix >= 1 {
		m = m.SetFloat2Attribute(modeling.TexCoordAttribute, uv)
	}
	if mix >= 2 && P > 0 {
		mats := make([]modeling.MeshMaterial, 1, 1+spare)
		mats[0] = modeling.MeshMaterial{PrimitiveCount: P, Material: &modeling.Material{Name: name}}
		m = m.SetMaterials(mats)
	}
	return m
}

type meshOp struct {
	name string
	f    func(recv modeling.Mesh, other modeling.Mesh, k int) modeling.Mesh
}

// binaryOps take a second mesh operand.
var binaryOps = map[string]bool{"Append": true, "CopyFloat3": true}

func hasPos(m modeling.Mesh) bool { return m.HasFloat3Attribute(modeling.PositionAttribute) }

var meshMethodOps = []meshOp{
	{"Append", func(r, o modeling.Mesh, k int) modeling.Mesh { return r.Append(o) }},
	{"Translate", func(r, o modeling.Mesh, k int) modeling.Mesh {
		zz.Assume(hasPos(r))
		return r.Translate(sv3(fmt.Sprintf("tr%d", k)))
	}},
	{"Scale", func(r, o modeling.Mesh, k int) modeling.Mesh {
		zz.Assume(hasPos(r))
		return r.Scale(sv3(fmt.Sprintf("sc%d", k)))
	}},
	{"ModifyFloat3", func(r, o modeling.Mesh, k int) modeling.Mesh {
		zz.Assume(hasPos(r))
		d := sv3(fmt.Sprintf("md%d", k))
		return r.ModifyFloat3Attribute(modeling.PositionAttribute, func(i int, v vector3.Float64) vector3.Float64 { return d })
	}},
	{"SetFloat3", func(r, o modeling.Mesh, k int) modeling.Mesh {
		n := r.AttributeLength()
		d := make([]vector3.Float64, n)
		for i := range d {
			d[i] = sv3(fmt.Sprintf("set%d[%d]", k, i))
		}
		return r.SetFloat3Attribute(modeling.NormalAttribute, d)
	}},
	{"SetIndices", func(r, o modeling.Mesh, k int) modeling.Mesh {
		n := r.Indices().Len()
		d := make([]int, n)
		for i := range d {
			d[i] = zz.Int(fmt.Sprintf("seti%d[%d]", k, i), 0, r.AttributeLength()-1)
		}
		return r.SetIndices(d)
	}},
	{"SetMaterial", func(r, o modeling.Mesh, k int) modeling.Mesh { return r.SetMaterial(modeling.Material{Name: "x"}) }},
	{"ToPointCloud", func(r, o modeling.Mesh, k int) modeling.Mesh { return r.ToPointCloud() }},
	{"Rotate", func(r, o modeling.Mesh, k int) modeling.Mesh {
		zz.Assume(hasPos(r))
		return r.Rotate(quaternion.New(vector3.New(0., 0., 1.), 0))
	}},
	{"ApplyTRS", func(r, o modeling.Mesh, k int) modeling.Mesh {
		zz.Assume(hasPos(r))
		return r.ApplyTRS(trs.Position(vector3.New(1., 2., 3.)))
	}},
	{"CopyFloat3", func(r, o modeling.Mesh, k int) modeling.Mesh {
		zz.Assume(hasPos(o))
		return r.CopyFloat3Attribute(o, modeling.PositionAttribute)
	}},
	// stripping an attribute: setting it to no data
	{"StripFloat2", func(r, o modeling.Mesh, k int) modeling.Mesh { return r.SetFloat2Attribute(modeling.TexCoordAttribute, nil) }},
	{"SetMaterials", func(r, o modeling.Mesh, k int) modeling.Mesh { return r.SetMaterials(r.Materials()) }},
	// a derivation with fewer primitives that keeps the source's material list (as the filters and slicers do)
	{"DropPrimitive", func(r, o modeling.Mesh, k int) modeling.Mesh {
		per := 3
		if r.Topology() == modeling.PointTopology {
			per = 1
		}
		n := r.Indices().Len()
		zz.Assume(n >= per)
		d := make([]int, n-per)
		for i := range d {
			d[i] = r.Indices().At(i)
		}
		return r.SetIndices(d).SetMaterials(r.Materials())
	}},
}

var meshopsOps = []meshOp{
	{"Unweld", func(r, o modeling.Mesh, k int) modeling.Mesh { return meshops.Unweld(r) }},
	{"RemovedUnreferencedVertices", func(r, o modeling.Mesh, k int) modeling.Mesh { return meshops.RemovedUnreferencedVertices(r) }},
	{"FlipTriangleWinding", func(r, o modeling.Mesh, k int) modeling.Mesh {
		zz.Assume(r.Topology() == modeling.TriangleTopology)
		return meshops.FlipTriangleWinding(r)
	}},
	{"TranslateAttribute3D", func(r, o modeling.Mesh, k int) modeling.Mesh {
		zz.Assume(hasPos(r))
		return meshops.TranslateAttribute3D(r, modeling.PositionAttribute, sv3(fmt.Sprintf("mtr%d", k)))
	}},
	{"ScaleAttribute3D", func(r, o modeling.Mesh, k int) modeling.Mesh {
		zz.Assume(hasPos(r))
		return meshops.ScaleAttribute3D(r, modeling.PositionAttribute, vector3.Zero[float64](), sv3(fmt.Sprintf("msc%d", k)))
	}},
	{"repeat.Mesh", func(r, o modeling.Mesh, k int) modeling.Mesh {
		zz.Assume(hasPos(r))
		return repeat.Mesh(r, []trs.TRS{trs.Position(vector3.Zero[float64]()), trs.Position(vector3.New(1., 0., 0.))})
	}},
	{"SplitOnUniqueMaterials", func(r, o modeling.Mesh, k int) modeling.Mesh {
		zz.Assume(r.Topology() == modeling.TriangleTopology)
		parts := meshops.SplitOnUniqueMaterials(r)
		return parts[0]
	}},
	{"Append", func(r, o modeling.Mesh, k int) modeling.Mesh { return r.Append(o) }},
}

// history runs STEPS symbolic steps over a pool of live meshes {base, extra, results...}. Before each
// step every live mesh is snapshotted through the public accessors; after it every one of them must report
// exactly the same. branch=true: every step derives from the shared base (branching derivations);
// branch=false: every step derives from the previous result (chains).
func history(ops []meshOp, topo modeling.Topology, branch bool) {
	base := spareMesh("base", topo, 2, zz.Bound("P"), 3, zz.Bound("SPARE"))
	extra := spareMesh("extra", topo, 1, 1, 1, 0)
	pool := []modeling.Mesh{base, extra}
	zz.Reach("base")
	steps := zz.Bound("STEPS")
	recv := base
	for k := 0; k < steps; k++ {
		snaps := make([]bitSnap, len(pool))
		for i := range pool {
			snaps[i] = snapBits(pool[i])
		}
		op := ops[zz.Choose(fmt.Sprintf("op%d", k), len(ops))]
		// the second operand: the extra mesh, or the most recent member of the pool
		other := extra
		if binaryOps[op.name] && zz.Bool(fmt.Sprintf("otherIsLatest%d", k)) {
			other = pool[len(pool)-1]
		}
		zz.Note(fmt.Sprintf("step %d: %s", k, op.name))
		res := op.f(recv, other, k)
		for i := range pool {
			sameBits(snaps[i], snapBits(pool[i]), fmt.Sprintf("live mesh disturbed by %s", op.name))
		}
		pool = append(pool, res)
		if !branch {
			recv = res
		}
		zz.Reach("step")
	}
}

func ZZ_C01_MeshMethodsBranch() { history(meshMethodOps, modeling.TriangleTopology, true) }
func ZZ_C01_MeshMethodsChain()  { history(meshMethodOps, modeling.TriangleTopology, false) }
func ZZ_C01_PointsBranch()      { history(meshMethodOps, modeling.PointTopology, true) }
func ZZ_C01_MeshopsBranch()     { history(meshopsOps, modeling.TriangleTopology, true) }
func ZZ_C01_MeshopsChain()      { history(meshopsOps, modeling.TriangleTopology, false) }
