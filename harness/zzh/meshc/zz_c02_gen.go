package meshc

import (
	"fmt"

	"github.com/EliCDavis/polyform/math/trs"
	"github.com/EliCDavis/polyform/modeling"
	"github.com/EliCDavis/polyform/modeling/extrude"
	"github.com/EliCDavis/polyform/modeling/primitives"
	"github.com/EliCDavis/polyform/modeling/repeat"
	"github.com/EliCDavis/polyform/modeling/triangulation"
	zz "github.com/EliCDavis/polyform/zzverif"
	"github.com/EliCDavis/vector/vector2"
	"github.com/EliCDavis/vector/vector3"
)

// Generators (C02): every mesh a generator returns is well formed, for every option mix within the bounds.
// Geometry is irrelevant to well-formedness, so the path points are concrete (an L-shaped path) while the
// structure - counts, which points carry texture coordinates or an explicit direction, which optional parts
// are switched on - is symbolic.

var genPath = []vector3.Float64{vector3.New(0., 0., 0.), vector3.New(0., 1., 0.), vector3.New(1., 2., 0.), vector3.New(2., 2., 1.)}

// pathOf: n points of the path; optionally one point repeats its predecessor exactly (a stationary sample of a
// recorded trajectory) - in the middle or at the end
func pathOf(n int) []vector3.Float64 {
	p := append([]vector3.Float64{}, genPath[:n]...)
	switch zz.Choose("repeat", 3) {
	case 1:
		p[1] = p[0]
	case 2:
		p[n-1] = p[n-2]
	}
	return p
}

func optStrip(name string) *primitives.StripUVs {
	if !zz.Bool(name) {
		return nil
	}
	return &primitives.StripUVs{Start: vector2.New(0., 0.), End: vector2.New(1., 0.5), Width: 0.25}
}

func optCircleUVs(name string) *primitives.CircleUVs {
	if !zz.Bool(name) {
		return nil
	}
	return &primitives.CircleUVs{Center: vector2.New(0.5, 0.5), Radius: 0.5}
}

func ZZ_C02_ExtrudePolygon() {
	n := 2 + zz.Choose("points", zz.Bound("PTS")-1)
	sides := 3 + zz.Choose("sides", zz.Bound("SIDES")-2)
	pts := make([]extrude.ExtrusionPoint, n)
	path := pathOf(n)
	for i := range pts {
		pts[i] = extrude.ExtrusionPoint{Point: path[i], Thickness: 0.5}
		if zz.Bool(fmt.Sprintf("uv%d", i)) {
			pts[i].UV = &extrude.ExtrusionPointUV{Point: vector2.New(0.25*float64(i), 0.5), Thickness: 0.5}
		}
		if zz.Bool(fmt.Sprintf("dir%d", i)) {
			pts[i].Direction = &extrude.ExtrusionPointDirection{Direction: vector3.New(0., 1., 0.)}
		}
	}
	zz.Reach("input")
	WF(extrude.Polygon(sides, pts), "extrude.Polygon")
}

func ZZ_C02_ExtrudeOthers() {
	n := 2 + zz.Choose("points", zz.Bound("PTS")-1)
	path := pathOf(n)
	zz.Reach("input")
	switch zz.Choose("gen", 5) {
	case 0:
		lp := make([]extrude.LinePoint, n)
		for i := range lp {
			lp[i] = extrude.LinePoint{Point: path[i], Up: vector3.New(0., 0., 1.), Width: 0.5, Height: 0.25, Uv: vector2.New(0.5, float64(i)), UvWidth: 1}
			if zz.Bool(fmt.Sprintf("flat%d", i)) {
				lp[i].Width = 0
			}
		}
		WF(extrude.Line(lp), "extrude.Line")
	case 1, 2:
		k := 3 + zz.Choose("shape", 2)
		shape := []vector2.Float64{vector2.New(0., 0.), vector2.New(1., 0.), vector2.New(1., 1.), vector2.New(0., 1.)}[:k]
		if zz.Bool("closed") {
			WF(extrude.ClosedShape(shape, path), "extrude.ClosedShape")
		} else {
			WF(extrude.Shape(shape, path), "extrude.Shape")
		}
	case 3:
		c := extrude.Circle{Resolution: 3 + zz.Choose("res", 2), Radius: 0.5, Path: path, ClosePath: zz.Bool("closePath")}
		if zz.Bool("radii") {
			c.Radii = []float64{0.5, 0.25, 0.75, 0.5}[:n]
		}
		WF(c.Extrude(), "extrude.Circle")
	case 4:
		base := primitives.Quad{Width: 1, Depth: 2, UVs: optStrip("quv")}.ToMesh()
		k := zz.Choose("copies", 3)
		ts := []trs.TRS{trs.Position(vector3.New(1., 0., 0.)), trs.Position(vector3.New(0., 0., 3.))}[:k]
		WF(repeat.Mesh(base, ts), "repeat.Mesh")
	}
}

func ZZ_C02_Primitives() {
	zz.Reach("input")
	switch zz.Choose("gen", 9) {
	case 0:
		rows, cols := 2+zz.Choose("rows", zz.Bound("ROWS")-1), 3+zz.Choose("cols", zz.Bound("COLS")-2)
		WF(primitives.UVSphere(1.5, rows, cols), "UVSphere")
	case 1:
		rows, cols := 2+zz.Choose("rows", zz.Bound("ROWS")-1), 3+zz.Choose("cols", zz.Bound("COLS")-2)
		WF(primitives.UVSphereUnwelded(1.5, rows, cols), "UVSphereUnwelded")
	case 2:
		c := primitives.Cube{Height: 1, Width: 2, Depth: 3}
		if zz.Bool("uvs") {
			c.UVs = &primitives.CubeUVs{Top: optStrip("top"), Bottom: optStrip("bottom"), Left: optStrip("left"), Right: optStrip("right"), Front: optStrip("front"), Back: optStrip("back")}
		}
		if zz.Bool("welded") {
			WF(c.Welded(), "Cube.Welded")
		} else {
			WF(c.UnweldedQuads(), "Cube.UnweldedQuads")
		}
	case 3:
		c := primitives.Cylinder{Sides: 3 + zz.Choose("sides", zz.Bound("SIDES")-2), Height: 2, Radius: 0.5, NoTop: zz.Bool("noTop"), NoBottom: zz.Bool("noBottom")}
		if zz.Bool("uvs") {
			c.UVs = &primitives.CylinderUVs{Top: optCircleUVs("top"), Bottom: optCircleUVs("bottom"), Side: optStrip("side")}
		}
		WF(c.ToMesh(), "Cylinder")
	case 4:
		rows, cols := 2+zz.Choose("rows", zz.Bound("ROWS")-1), 3+zz.Choose("cols", zz.Bound("COLS")-2)
		WF(primitives.Hemisphere{Radius: 1, Capped: zz.Bool("capped")}.UV(rows, cols), "Hemisphere")
	case 5:
		WF(primitives.Circle{Sides: 3 + zz.Choose("sides", zz.Bound("SIDES")-2), Radius: 1, UVs: optCircleUVs("uvs")}.ToMesh(), "Circle")
	case 6:
		WF(primitives.Quad{Width: 1, Depth: 2, UVs: optStrip("uvs")}.ToMesh(), "Quad")
	case 7:
		WF(primitives.Cone{Height: 1, Radius: 1, Sides: 3 + zz.Choose("sides", zz.Bound("SIDES")-2)}.ToMesh(), "Cone")
	case 8:
		WF(primitives.UnitCube(), "UnitCube")
	}
}

// constrained triangulation: a constraint edge that cuts through a triangle introduces new vertices; the result
// must still be well-formed. One triangle, a rectangular keep-in constraint whose horizontal edge sits at a
// symbolic height: above it only the apex is inside, below it the two base vertices are.
func ZZ_C02_GenConstrainedTriangulation() {
	pts := []vector2.Float64{vector2.New(0., 0.), vector2.New(10., 0.), vector2.New(5., 10.)}
	h := zz.Float64("h")
	zz.Assume(h >= 0.5)
	zz.Assume(h <= 9.5)
	var shape []vector2.Float64
	if zz.Bool("keep the apex side") {
		shape = []vector2.Float64{vector2.New(-5., h), vector2.New(15., h), vector2.New(15., 15.), vector2.New(-5., 15.)}
	} else {
		shape = []vector2.Float64{vector2.New(-5., -5.), vector2.New(15., -5.), vector2.New(15., h), vector2.New(-5., h)}
	}
	zz.Reach("input")
	m := triangulation.ConstrainedBowyerWatson(pts, []triangulation.Constraint{triangulation.NewConstraint(shape)})
	WF(m, "ConstrainedBowyerWatson")
	zz.Assert(m.Topology() == modeling.TriangleTopology, "ConstrainedBowyerWatson returns triangles")
	zz.Reach("done")
}
