// Package meshc holds the harnesses for the mesh core properties (C01, C02, C03).
package meshc

import (
	"fmt"
	"math"

	"github.com/EliCDavis/polyform/modeling"
	zz "github.com/EliCDavis/polyform/zzverif"
	"github.com/EliCDavis/vector/vector2"
	"github.com/EliCDavis/vector/vector3"
	"github.com/EliCDavis/vector/vector4"
)

const (
	atrExtra3 = "zz3"
	atrV1     = "zz1"
	atrV4     = "zz4"
)

func sv3(name string) vector3.Float64 {
	return vector3.New(zz.Float64(name+".x"), zz.Float64(name+".y"), zz.Float64(name+".z"))
}

// PosMode selects how SymMesh produces positions: 0 = fully symbolic floats; 1 = a symbolic choice
// from a small concrete palette (includes near-duplicates and collinear points), so that geometric
// predicates inside the operation are decided concretely per path while the index structure stays symbolic;
// 2 = symbolic x coordinate only (y = z = 0).
var PosMode = 0

var palette = []vector3.Float64{
	vector3.New(0., 0., 0.),
	vector3.New(1., 0., 0.),
	vector3.New(0., 1., 0.),
	vector3.New(2., 0., 0.),   // collinear with the first two
	vector3.New(0.01, 0., 0.), // same rounding cell as the origin at one decimal place
}

// positions for the weld oracle: both sides of zero, two pairs sharing a rounding cell at one decimal place
// (0 / 0.04 and -0.1 / -0.06: round half away from zero gives cells 0, 0, -1, -1)
var weldPalette = []vector3.Float64{
	vector3.New(0., 0., 0.),
	vector3.New(-0.1, 0., 0.),
	vector3.New(0., 1., 0.),
	vector3.New(0.04, 0., 0.),
	vector3.New(-0.06, 0., 0.),
}

func symPos(name string) vector3.Float64 {
	switch PosMode {
	case 4:
		return weldPalette[zz.Int(name+".pal", 0, zz.Bound("PAL")-1)]
	case 1:
		return palette[zz.Choose(name+".pal", zz.Bound("PAL"))]
	case 2:
		return vector3.New(zz.Float64(name+".x"), 0, 0)
	case 3:
		// a palette entry selected by a symbolic index: the position is a guarded constant, and the paths
		// split lazily - only when the operation actually compares two positions
		return palette[zz.Int(name+".pal", 0, zz.Bound("PAL")-1)]
	}
	return sv3(name)
}
func sv2(name string) vector2.Float64 {
	return vector2.New(zz.Float64(name+".x"), zz.Float64(name+".y"))
}
func sv4(name string) vector4.Float64 {
	return vector4.New(zz.Float64(name+".x"), zz.Float64(name+".y"), zz.Float64(name+".z"), zz.Float64(name+".w"))
}

// SymMesh builds an arbitrary well-formed mesh within the bounds: V vertices (symbolic count),
// a symbolic attribute mix, symbolic attribute values and symbolic in-range indices (repeated and
// unreferenced vertices included). mix: 0 = position only, 1 = position+normal+uv,
// 2 = position + scalar + float4 + extra float3, 3 = no attributes at all (empty mesh).
func SymMesh(name string, topo modeling.Topology, maxV, maxPrims int, mixes int) modeling.Mesh {
	mix := zz.Choose(name+".mix", mixes)
	V := 0
	if mix != 3 {
		V = zz.Choose(name+".V", maxV+1)
	}
	per := 3
	if topo == modeling.PointTopology {
		per = 1
	}
	P := 0
	if V > 0 {
		P = zz.Choose(name+".P", maxPrims+1)
	}
	idx := make([]int, P*per)
	for i := range idx {
		idx[i] = zz.Int(fmt.Sprintf("%s.idx[%d]", name, i), 0, V-1)
	}
	m := modeling.NewMesh(topo, idx)
	if V == 0 {
		return m
	}
	pos := make([]vector3.Float64, V)
	for i := range pos {
		pos[i] = symPos(fmt.Sprintf("%s.pos[%d]", name, i))
	}
	m = m.SetFloat3Attribute(modeling.PositionAttribute, pos)
	switch mix {
	case 1:
		nrm := make([]vector3.Float64, V)
		uv := make([]vector2.Float64, V)
		for i := 0; i < V; i++ {
			nrm[i] = sv3(fmt.Sprintf("%s.nrm[%d]", name, i))
			uv[i] = sv2(fmt.Sprintf("%s.uv[%d]", name, i))
		}
		m = m.SetFloat3Attribute(modeling.NormalAttribute, nrm).SetFloat2Attribute(modeling.TexCoordAttribute, uv)
	case 2:
		s := make([]float64, V)
		f4 := make([]vector4.Float64, V)
		e3 := make([]vector3.Float64, V)
		for i := 0; i < V; i++ {
			s[i] = zz.Float64(fmt.Sprintf("%s.s[%d]", name, i))
			f4[i] = sv4(fmt.Sprintf("%s.f4[%d]", name, i))
			e3[i] = sv3(fmt.Sprintf("%s.e3[%d]", name, i))
		}
		m = m.SetFloat1Attribute(atrV1, s).SetFloat4Attribute(atrV4, f4).SetFloat3Attribute(atrExtra3, e3)
	}
	return m
}

// WF asserts well-formedness reading only through the public accessors.
func WF(m modeling.Mesh, tag string) {
	L := m.AttributeLength()
	for _, a := range m.Float4Attributes() {
		zz.Assert(m.Float4Attribute(a).Len() == L, tag+": float4 attribute length differs")
	}
	for _, a := range m.Float3Attributes() {
		zz.Assert(m.Float3Attribute(a).Len() == L, tag+": float3 attribute length differs")
	}
	for _, a := range m.Float2Attributes() {
		zz.Assert(m.Float2Attribute(a).Len() == L, tag+": float2 attribute length differs")
	}
	for _, a := range m.Float1Attributes() {
		zz.Assert(m.Float1Attribute(a).Len() == L, tag+": float1 attribute length differs")
	}
	idx := m.Indices()
	n := idx.Len()
	for i := 0; i < n; i++ {
		v := idx.At(i)
		zz.Assert(v >= 0, tag+": negative index")
		zz.Assert(v < L, tag+": index beyond the attribute arrays")
	}
	switch m.Topology() {
	case modeling.TriangleTopology:
		zz.Assert(n%3 == 0, tag+": index count not a multiple of 3")
	case modeling.QuadTopology:
		zz.Assert(n%4 == 0, tag+": index count not a multiple of 4")
	}
}

// Snapshot is everything a mesh reports through its public accessors, flattened.
type Snapshot struct {
	Topo  modeling.Topology
	Idx   []int
	Mats  []modeling.MeshMaterial
	Names []string
	Vals  []float64
	Lens  []int
}

func Snap(m modeling.Mesh) Snapshot {
	s := Snapshot{Topo: m.Topology()}
	idx := m.Indices()
	for i := 0; i < idx.Len(); i++ {
		s.Idx = append(s.Idx, idx.At(i))
	}
	s.Mats = append(s.Mats, m.Materials()...)
	for _, a := range m.Float1Attributes() {
		s.Names = append(s.Names, "1:"+a)
		d := m.Float1Attribute(a)
		s.Lens = append(s.Lens, d.Len())
		for i := 0; i < d.Len(); i++ {
			s.Vals = append(s.Vals, d.At(i))
		}
	}
	for _, a := range m.Float2Attributes() {
		s.Names = append(s.Names, "2:"+a)
		d := m.Float2Attribute(a)
		s.Lens = append(s.Lens, d.Len())
		for i := 0; i < d.Len(); i++ {
			v := d.At(i)
			s.Vals = append(s.Vals, v.X(), v.Y())
		}
	}
	for _, a := range m.Float3Attributes() {
		s.Names = append(s.Names, "3:"+a)
		d := m.Float3Attribute(a)
		s.Lens = append(s.Lens, d.Len())
		for i := 0; i < d.Len(); i++ {
			v := d.At(i)
			s.Vals = append(s.Vals, v.X(), v.Y(), v.Z())
		}
	}
	for _, a := range m.Float4Attributes() {
		s.Names = append(s.Names, "4:"+a)
		d := m.Float4Attribute(a)
		s.Lens = append(s.Lens, d.Len())
		for i := 0; i < d.Len(); i++ {
			v := d.At(i)
			s.Vals = append(s.Vals, v.X(), v.Y(), v.Z(), v.W())
		}
	}
	return s
}

// SameSnap asserts that two snapshots are identical (bit-level equality of values is asserted via ==;
// data is assumed non-NaN by construction of the symbolic inputs).
func SameSnap(a, b Snapshot, tag string) {
	zz.Assert(a.Topo == b.Topo, tag+": topology changed")
	zz.Assert(len(a.Idx) == len(b.Idx), tag+": index count changed")
	if len(a.Idx) == len(b.Idx) {
		for i := range a.Idx {
			zz.Assert(a.Idx[i] == b.Idx[i], tag+": index value changed")
		}
	}
	zz.Assert(len(a.Mats) == len(b.Mats), tag+": material count changed")
	if len(a.Mats) == len(b.Mats) {
		for i := range a.Mats {
			zz.Assert(a.Mats[i].PrimitiveCount == b.Mats[i].PrimitiveCount, tag+": material range changed")
			zz.Assert(a.Mats[i].Material == b.Mats[i].Material, tag+": material pointer changed")
		}
	}
	zz.Assert(len(a.Names) == len(b.Names), tag+": attribute set changed")
	if len(a.Names) == len(b.Names) {
		for i := range a.Names {
			zz.Assert(a.Names[i] == b.Names[i], tag+": attribute name changed")
			zz.Assert(a.Lens[i] == b.Lens[i], tag+": attribute length changed")
		}
	}
	zz.Assert(len(a.Vals) == len(b.Vals), tag+": attribute data size changed")
	if len(a.Vals) == len(b.Vals) {
		for i := range a.Vals {
			zz.Assert(a.Vals[i] == b.Vals[i], tag+": attribute value changed")
		}
	}
}

func triMesh(name string) modeling.Mesh {
	return SymMesh(name, modeling.TriangleTopology, zz.Bound("V"), zz.Bound("T"), 4)
}
func pointMesh(name string) modeling.Mesh {
	return SymMesh(name, modeling.PointTopology, zz.Bound("V"), zz.Bound("V"), 4)
}

// bit-level snapshot: values are compared by their IEEE bit patterns, so an untouched cell is
// syntactically identical before and after and costs no solver work.
type bitSnap struct {
	Topo  modeling.Topology
	Idx   []int
	Mats  []modeling.MeshMaterial
	Names []string
	Lens  []int
	Bits  []uint64
}

func snapBits(m modeling.Mesh) bitSnap {
	s := Snap(m)
	b := bitSnap{Topo: s.Topo, Idx: s.Idx, Mats: s.Mats, Names: s.Names, Lens: s.Lens}
	for _, v := range s.Vals {
		b.Bits = append(b.Bits, math.Float64bits(v))
	}
	return b
}

func sameBits(a, b bitSnap, tag string) {
	zz.Assert(a.Topo == b.Topo, tag+": topology changed")
	zz.Assert(len(a.Idx) == len(b.Idx), tag+": index count changed")
	if len(a.Idx) == len(b.Idx) {
		for i := range a.Idx {
			zz.Assert(a.Idx[i] == b.Idx[i], tag+": index value changed")
		}
	}
	zz.Assert(len(a.Mats) == len(b.Mats), tag+": material count changed")
	if len(a.Mats) == len(b.Mats) {
		for i := range a.Mats {
			zz.Assert(a.Mats[i].PrimitiveCount == b.Mats[i].PrimitiveCount, tag+": material range changed")
			zz.Assert(a.Mats[i].Material == b.Mats[i].Material, tag+": material pointer changed")
		}
	}
	zz.Assert(len(a.Names) == len(b.Names), tag+": attribute set changed")
	if len(a.Names) == len(b.Names) {
		for i := range a.Names {
			zz.Assert(a.Names[i] == b.Names[i], tag+": attribute name changed")
			zz.Assert(a.Lens[i] == b.Lens[i], tag+": attribute length changed")
		}
	}
	zz.Assert(len(a.Bits) == len(b.Bits), tag+": attribute data size changed")
	if len(a.Bits) == len(b.Bits) {
		for i := range a.Bits {
			zz.Assert(a.Bits[i] == b.Bits[i], tag+": attribute value changed")
		}
	}
}
