package meshc

import (
	"fmt"
	"math"

	"github.com/EliCDavis/polyform/math/geometry"
	"github.com/EliCDavis/polyform/math/quaternion"
	"github.com/EliCDavis/polyform/math/trs"
	"github.com/EliCDavis/polyform/modeling"
	"github.com/EliCDavis/polyform/modeling/meshops"
	"github.com/EliCDavis/polyform/modeling/repeat"
	zz "github.com/EliCDavis/polyform/zzverif"
	"github.com/EliCDavis/vector/vector3"
)

// corner returns every attribute value of the vertex referenced by corner k, as IEEE bit patterns in
// attribute-name order (bits mode) - the per-corner tuple of the property.
func vertexBits(m modeling.Mesh, v int) []uint64 {
	var out []uint64
	for _, a := range m.Float1Attributes() {
		out = append(out, math.Float64bits(m.Float1Attribute(a).At(v)))
	}
	for _, a := range m.Float2Attributes() {
		x := m.Float2Attribute(a).At(v)
		out = append(out, math.Float64bits(x.X()), math.Float64bits(x.Y()))
	}
	for _, a := range m.Float3Attributes() {
		x := m.Float3Attribute(a).At(v)
		out = append(out, math.Float64bits(x.X()), math.Float64bits(x.Y()), math.Float64bits(x.Z()))
	}
	for _, a := range m.Float4Attributes() {
		x := m.Float4Attribute(a).At(v)
		out = append(out, math.Float64bits(x.X()), math.Float64bits(x.Y()), math.Float64bits(x.Z()), math.Float64bits(x.W()))
	}
	return out
}

func attrNames(m modeling.Mesh) []string {
	var n []string
	for _, a := range m.Float1Attributes() {
		n = append(n, "1:"+a)
	}
	for _, a := range m.Float2Attributes() {
		n = append(n, "2:"+a)
	}
	for _, a := range m.Float3Attributes() {
		n = append(n, "3:"+a)
	}
	for _, a := range m.Float4Attributes() {
		n = append(n, "4:"+a)
	}
	return n
}

func sameNames(a, b modeling.Mesh, tag string) bool {
	x, y := attrNames(a), attrNames(b)
	zz.Assert(len(x) == len(y), tag+": attribute set changed")
	if len(x) != len(y) {
		return false
	}
	for i := range x {
		zz.Assert(x[i] == y[i], tag+": attribute name changed")
	}
	return true
}

func sameTuple(a, b []uint64, tag string) {
	zz.Assert(len(a) == len(b), tag+": tuple size differs")
	if len(a) == len(b) {
		for i := range a {
			zz.Assert(a[i] == b[i], tag+": corner attribute value differs")
		}
	}
}

func cornerTuples(m modeling.Mesh) [][]uint64 {
	idx := m.Indices()
	out := make([][]uint64, idx.Len())
	for k := 0; k < idx.Len(); k++ {
		out[k] = vertexBits(m, idx.At(k))
	}
	return out
}

func sameCorners(in, out modeling.Mesh, tag string) {
	a, b := cornerTuples(in), cornerTuples(out)
	zz.Assert(len(a) == len(b), tag+": corner count changed")
	if len(a) == len(b) {
		for k := range a {
			sameTuple(a[k], b[k], tag)
		}
	}
}

func sameMaterials(a, b modeling.Mesh, tag string) {
	x, y := a.Materials(), b.Materials()
	zz.Assert(len(x) == len(y), tag+": material count changed")
	if len(x) == len(y) {
		for i := range x {
			zz.Assert(x[i].PrimitiveCount == y[i].PrimitiveCount, tag+": material range changed")
			zz.Assert(x[i].Material == y[i].Material, tag+": material changed")
		}
	}
}

func ZZ_C03_Unweld() {
	m := triMesh("m")
	zz.Reach("input")
	out := meshops.Unweld(m)
	zz.Assert(out.Topology() == m.Topology(), "Unweld: topology changed")
	idx := out.Indices()
	for k := 0; k < idx.Len(); k++ {
		zz.Assert(idx.At(k) == k, "Unweld: output indices are not the identity")
	}
	zz.Assert(out.AttributeLength() == m.Indices().Len() || len(attrNames(m)) == 0, "Unweld: one vertex per corner expected")
	if sameNames(m, out, "Unweld") {
		sameCorners(m, out, "Unweld")
	}
	sameMaterials(m, out, "Unweld")
}

func ZZ_C03_RemoveUnreferenced() {
	m := triMesh("m")
	zz.Reach("input")
	out := meshops.RemovedUnreferencedVertices(m)
	zz.Assert(out.Topology() == m.Topology(), "RemoveUnreferenced: topology changed")
	if m.Indices().Len() > 0 && sameNames(m, out, "RemoveUnreferenced") {
		sameCorners(m, out, "RemoveUnreferenced")
	}
	// every output vertex is referenced, and the number of output vertices is the number of distinct used inputs
	L := out.AttributeLength()
	oi := out.Indices()
	for v := 0; v < L; v++ {
		used := false
		for k := 0; k < oi.Len(); k++ {
			used = zz.Or(used, oi.At(k) == v)
		}
		zz.Assert(used, "RemoveUnreferenced: an unreferenced vertex survived")
	}
	distinct := 0
	ii := m.Indices()
	for v := 0; v < m.AttributeLength(); v++ {
		used := false
		for k := 0; k < ii.Len(); k++ {
			used = zz.Or(used, ii.At(k) == v)
		}
		distinct += zz.IteInt(used, 1, 0)
	}
	zz.Assert(L == distinct, "RemoveUnreferenced: output vertex count differs from the number of used vertices")
	sameMaterials(m, out, "RemoveUnreferenced")
}

func ZZ_C03_Flip() {
	m := triMesh("m")
	zz.Reach("input")
	out := meshops.FlipTriangleWinding(m)
	a, b := m.Indices(), out.Indices()
	zz.Assert(a.Len() == b.Len(), "Flip: index count changed")
	if a.Len() == b.Len() {
		for t := 0; t+2 < a.Len(); t += 3 {
			zz.Assert(b.At(t) == a.At(t+1), "Flip: corner 0 is not the old corner 1")
			zz.Assert(b.At(t+1) == a.At(t), "Flip: corner 1 is not the old corner 0")
			zz.Assert(b.At(t+2) == a.At(t+2), "Flip: corner 2 moved")
		}
	}
	SameSnapExceptIndices(m, out, "Flip")
	twice := meshops.FlipTriangleWinding(out)
	sameBits(snapBits(m), snapBits(twice), "Flip twice")
}

// SameSnapExceptIndices: everything but the index values is identical.
func SameSnapExceptIndices(a, b modeling.Mesh, tag string) {
	x, y := snapBits(a), snapBits(b)
	x.Idx, y.Idx = nil, nil
	sameBits(x, y, tag)
}

func ZZ_C03_Append() {
	a := triMesh("a")
	b := triMesh("b")
	if zz.Bool("materials") {
		a = a.SetMaterial(modeling.Material{Name: "ma"})
		b = b.SetMaterial(modeling.Material{Name: "mb"})
	}
	zz.Reach("input")
	out := a.Append(b)
	ca, cb, co := cornerTuplesNamed(a, out), cornerTuplesNamed(b, out), cornerTuples(out)
	zz.Assert(len(co) == len(ca)+len(cb), "Append: corner count is not the sum")
	if len(co) == len(ca)+len(cb) {
		for k := range ca {
			sameTuple(ca[k], co[k], "Append: first operand corner")
		}
		for k := range cb {
			sameTuple(cb[k], co[len(ca)+k], "Append: second operand corner")
		}
	}
	ma, mb, mo := a.Materials(), b.Materials(), out.Materials()
	zz.Assert(len(mo) == len(ma)+len(mb), "Append: materials are not concatenated")
	if len(mo) == len(ma)+len(mb) {
		for i := range ma {
			zz.Assert(mo[i].Material == ma[i].Material, "Append: material order")
			zz.Assert(mo[i].PrimitiveCount == ma[i].PrimitiveCount, "Append: material range")
		}
		for i := range mb {
			zz.Assert(mo[len(ma)+i].Material == mb[i].Material, "Append: material order (second)")
			zz.Assert(mo[len(ma)+i].PrimitiveCount == mb[i].PrimitiveCount, "Append: material range (second)")
		}
	}
}

// cornerTuplesNamed reads m's corners in the attribute layout of ref: attributes m lacks read as zero.
func cornerTuplesNamed(m, ref modeling.Mesh) [][]uint64 {
	idx := m.Indices()
	out := make([][]uint64, idx.Len())
	for k := 0; k < idx.Len(); k++ {
		v := idx.At(k)
		var t []uint64
		for _, a := range ref.Float1Attributes() {
			if m.HasFloat1Attribute(a) {
				t = append(t, math.Float64bits(m.Float1Attribute(a).At(v)))
			} else {
				t = append(t, 0)
			}
		}
		for _, a := range ref.Float2Attributes() {
			if m.HasFloat2Attribute(a) {
				x := m.Float2Attribute(a).At(v)
				t = append(t, math.Float64bits(x.X()), math.Float64bits(x.Y()))
			} else {
				t = append(t, 0, 0)
			}
		}
		for _, a := range ref.Float3Attributes() {
			if m.HasFloat3Attribute(a) {
				x := m.Float3Attribute(a).At(v)
				t = append(t, math.Float64bits(x.X()), math.Float64bits(x.Y()), math.Float64bits(x.Z()))
			} else {
				t = append(t, 0, 0, 0)
			}
		}
		for _, a := range ref.Float4Attributes() {
			if m.HasFloat4Attribute(a) {
				x := m.Float4Attribute(a).At(v)
				t = append(t, math.Float64bits(x.X()), math.Float64bits(x.Y()), math.Float64bits(x.Z()), math.Float64bits(x.W()))
			} else {
				t = append(t, 0, 0, 0, 0)
			}
		}
		out[k] = t
	}
	return out
}

func ZZ_C03_ToPointCloud() {
	m := triMesh("m")
	zz.Reach("input")
	out := m.ToPointCloud()
	zz.Assert(out.Topology() == modeling.PointTopology, "ToPointCloud: topology")
	idx := out.Indices()
	zz.Assert(idx.Len() == m.AttributeLength(), "ToPointCloud: one point per vertex")
	for k := 0; k < idx.Len(); k++ {
		zz.Assert(idx.At(k) == k, "ToPointCloud: identity indices")
	}
	x, y := snapBits(m), snapBits(out)
	x.Idx, y.Idx, x.Topo, y.Topo = nil, nil, 0, 0
	sameBits(x, y, "ToPointCloud")
}

func ZZ_C03_FilterFloat3Points() {
	m := pointMesh("m")
	zz.Assume(m.HasFloat3Attribute(modeling.PositionAttribute))
	zz.Reach("input")
	L := m.AttributeLength()
	keep := make([]bool, L)
	for i := range keep {
		keep[i] = zz.Bool(fmt.Sprintf("keep[%d]", i))
	}
	// the filter identifies the vertex by its x coordinate, which the harness makes distinct per vertex
	pos := m.Float3Attribute(modeling.PositionAttribute)
	for i := 0; i < L; i++ {
		for j := i + 1; j < L; j++ {
			zz.Assume(pos.At(i).X() != pos.At(j).X())
		}
	}
	out := meshops.FilterFloat3(m, modeling.PositionAttribute, func(v vector3.Float64) bool {
		r := false
		for i := 0; i < L; i++ {
			r = zz.Or(r, zz.And(pos.At(i).X() == v.X(), keep[i]))
		}
		return r
	})
	// expected: the corners whose vertex passes, in order
	in := cornerTuples(m)
	ii := m.Indices()
	var want [][]uint64
	for k := range in {
		v := ii.At(k)
		kept := false
		for i := 0; i < L; i++ {
			kept = zz.Or(kept, zz.And(v == i, keep[i]))
		}
		if kept {
			want = append(want, in[k])
		}
	}
	got := cornerTuples(out)
	zz.Assert(len(got) == len(want), "FilterFloat3: number of surviving points")
	if len(got) == len(want) && len(want) > 0 {
		for k := range want {
			sameTuple(want[k], got[k], "FilterFloat3: surviving point")
		}
	}
}

func ZZ_C03_CropPoints() {
	PosMode = 2
	m := pointMesh("m")
	zz.Assume(m.HasFloat3Attribute(modeling.PositionAttribute))
	zz.Reach("input")
	// a concrete box and symbolic coordinates: which points fall inside is decided by the solver, while the
	// box's own centre/extents arithmetic stays concrete (64-bit fp.div is out of the solvers' reach)
	box := geometry.NewAABBFromPoints(vector3.New(-1., -1., -1.), vector3.New(1., 1., 1.))
	out := meshops.CropFloat3Attribute(m, modeling.PositionAttribute, box)
	pos := m.Float3Attribute(modeling.PositionAttribute)
	var want [][]uint64
	for v := 0; v < m.AttributeLength(); v++ {
		// the deciding predicate is the box's own Contains (AABB stores centre+extents, so its faces are the
		// rounded images of lo/hi; the operation's contract is stated in terms of the box it is given)
		if box.Contains(pos.At(v)) {
			want = append(want, vertexBits(m, v))
		}
	}
	zz.Assert(out.AttributeLength() == len(want), "Crop: number of surviving vertices")
	if out.AttributeLength() == len(want) && len(want) > 0 {
		if sameNames(m, out, "Crop") {
			for v := range want {
				sameTuple(want[v], vertexBits(out, v), "Crop: surviving vertex")
			}
		}
	}
}

func ZZ_C03_Split() {
	m := triMesh("m")
	T := m.PrimitiveCount()
	zz.Assume(T >= 1)
	k := zz.Int("split", 0, T)
	matA, matB := &modeling.Material{Name: "a"}, &modeling.Material{Name: "b"}
	m = m.SetMaterials([]modeling.MeshMaterial{{PrimitiveCount: k, Material: matA}, {PrimitiveCount: T - k, Material: matB}})
	zz.Reach("input")
	parts := meshops.SplitOnUniqueMaterials(m)
	in := cornerTuples(m)
	// concatenating the parts gives back every triangle exactly once, in order, with its material
	var got [][]uint64
	var gotMat []*modeling.Material
	for _, p := range parts {
		zz.Assert(len(p.Materials()) == 1, "Split: each part has exactly one material")
		c := cornerTuples(p)
		for i := range c {
			got = append(got, c[i])
			if len(p.Materials()) == 1 {
				gotMat = append(gotMat, p.Materials()[0].Material)
			}
		}
	}
	zz.Assert(len(got) == len(in), "Split: a triangle was lost or invented")
	if len(got) == len(in) && len(gotMat) == len(got) {
		if k == 0 || k == T || true {
			// order: all material-a triangles first (they come first in the input), then material-b
			for c := range in {
				sameTuple(in[c], got[c], "Split: corner")
				want := matA
				if c/3 >= k {
					want = matB
				}
				zz.Assert(gotMat[c].Name == want.Name, "Split: triangle assigned to the wrong material")
			}
		}
	}
}

func ZZ_C03_Repeat() {
	m := triMesh("m")
	zz.Assume(m.HasFloat3Attribute(modeling.PositionAttribute))
	zz.Reach("input")
	t1 := sv3("t1")
	out := repeat.Mesh(m, []trs.TRS{trs.Position(vector3.Zero[float64]()), trs.Position(t1)})
	n := m.Indices().Len()
	zz.Assert(out.Indices().Len() == 2*n, "repeat: two copies expected")
	if out.Indices().Len() == 2*n && n > 0 {
		ip, op := m.Float3Attribute(modeling.PositionAttribute), out.Float3Attribute(modeling.PositionAttribute)
		ii, oi := m.Indices(), out.Indices()
		for k := 0; k < n; k++ {
			a, b := ip.At(ii.At(k)), op.At(oi.At(n+k))
			zz.AssertNear(b.X(), a.X()+t1.X(), "repeat: second copy x")
			zz.AssertNear(b.Y(), a.Y()+t1.Y(), "repeat: second copy y")
			zz.AssertNear(b.Z(), a.Z()+t1.Z(), "repeat: second copy z")
		}
	}
}

// ---- attribute transforms: exactly the target attribute changes, by the stated map ----

func othersUntouched(in, out modeling.Mesh, changed string, tag string) {
	x, y := Snap(in), Snap(out)
	zz.Assert(x.Topo == y.Topo, tag+": topology changed")
	zz.Assert(len(x.Idx) == len(y.Idx), tag+": index count changed")
	if len(x.Idx) == len(y.Idx) {
		for i := range x.Idx {
			zz.Assert(x.Idx[i] == y.Idx[i], tag+": index changed")
		}
	}
	for _, a := range in.Float3Attributes() {
		if a == changed {
			continue
		}
		zz.Assert(out.HasFloat3Attribute(a), tag+": float3 attribute dropped")
		if out.HasFloat3Attribute(a) {
			p, q := in.Float3Attribute(a), out.Float3Attribute(a)
			zz.Assert(p.Len() == q.Len(), tag+": other attribute resized")
			if p.Len() == q.Len() {
				for i := 0; i < p.Len(); i++ {
					zz.Assert(p.At(i) == q.At(i), tag+": other float3 attribute changed")
				}
			}
		}
	}
	for _, a := range in.Float2Attributes() {
		zz.Assert(out.HasFloat2Attribute(a), tag+": float2 attribute dropped")
		if out.HasFloat2Attribute(a) {
			p, q := in.Float2Attribute(a), out.Float2Attribute(a)
			zz.Assert(p.Len() == q.Len(), tag+": other attribute resized")
			if p.Len() == q.Len() {
				for i := 0; i < p.Len(); i++ {
					zz.Assert(p.At(i) == q.At(i), tag+": float2 attribute changed")
				}
			}
		}
	}
	for _, a := range in.Float1Attributes() {
		zz.Assert(out.HasFloat1Attribute(a), tag+": float1 attribute dropped")
	}
	for _, a := range in.Float4Attributes() {
		zz.Assert(out.HasFloat4Attribute(a), tag+": float4 attribute dropped")
	}
	zz.Assert(len(attrNames(out)) == len(attrNames(in)) || !in.HasFloat3Attribute(changed), tag+": attribute set changed")
	sameMaterials(in, out, tag)
}

func pointMap(in, out modeling.Mesh, attr, tag string, f func(i int, v vector3.Float64) vector3.Float64) {
	zz.Assert(out.HasFloat3Attribute(attr), tag+": target attribute missing")
	if !out.HasFloat3Attribute(attr) {
		return
	}
	p, q := in.Float3Attribute(attr), out.Float3Attribute(attr)
	zz.Assert(p.Len() == q.Len(), tag+": target attribute resized")
	if p.Len() != q.Len() {
		return
	}
	for i := 0; i < p.Len(); i++ {
		w := f(i, p.At(i))
		g := q.At(i)
		zz.AssertNear(g.X(), w.X(), tag+": x")
		zz.AssertNear(g.Y(), w.Y(), tag+": y")
		zz.AssertNear(g.Z(), w.Z(), tag+": z")
	}
}

func transformInput() modeling.Mesh {
	m := SymMesh("m", modeling.TriangleTopology, zz.Bound("V"), zz.Bound("T"), 2)
	zz.Assume(m.HasFloat3Attribute(modeling.PositionAttribute))
	zz.Reach("input")
	return m
}

func ZZ_C03_Translate() {
	m := transformInput()
	d := sv3("d")
	out := m.Translate(d)
	othersUntouched(m, out, modeling.PositionAttribute, "Translate")
	pointMap(m, out, modeling.PositionAttribute, "Translate", func(i int, v vector3.Float64) vector3.Float64 {
		return vector3.New(v.X()+d.X(), v.Y()+d.Y(), v.Z()+d.Z())
	})
	out2 := meshops.TranslateAttribute3D(m, modeling.PositionAttribute, d)
	othersUntouched(m, out2, modeling.PositionAttribute, "TranslateAttribute3D")
	pointMap(m, out2, modeling.PositionAttribute, "TranslateAttribute3D", func(i int, v vector3.Float64) vector3.Float64 {
		return vector3.New(v.X()+d.X(), v.Y()+d.Y(), v.Z()+d.Z())
	})
}

func ZZ_C03_Scale() {
	m := transformInput()
	s := sv3("s")
	out := m.Scale(s)
	othersUntouched(m, out, modeling.PositionAttribute, "Scale")
	pointMap(m, out, modeling.PositionAttribute, "Scale", func(i int, v vector3.Float64) vector3.Float64 {
		return vector3.New(v.X()*s.X(), v.Y()*s.Y(), v.Z()*s.Z())
	})
	o := sv3("o")
	out2 := meshops.ScaleAttribute3D(m, modeling.PositionAttribute, o, s)
	othersUntouched(m, out2, modeling.PositionAttribute, "ScaleAttribute3D")
	pointMap(m, out2, modeling.PositionAttribute, "ScaleAttribute3D", func(i int, v vector3.Float64) vector3.Float64 {
		return vector3.New(o.X()+(v.X()-o.X())*s.X(), o.Y()+(v.Y()-o.Y())*s.Y(), o.Z()+(v.Z()-o.Z())*s.Z())
	})
}

// scaling an attribute other than the position, about an origin that is exactly zero and about a symbolic one
func ZZ_C03_ScaleOtherAttribute() {
	m := SymMesh("m", modeling.TriangleTopology, zz.Bound("V"), zz.Bound("T"), 2)
	zz.Assume(m.HasFloat3Attribute(modeling.NormalAttribute))
	zz.Reach("input")
	s := sv3("s")
	o := vector3.Zero[float64]()
	if zz.Bool("symbolicOrigin") {
		o = sv3("o")
	}
	out := meshops.ScaleAttribute3D(m, modeling.NormalAttribute, o, s)
	othersUntouched(m, out, modeling.NormalAttribute, "ScaleAttribute3D(normal)")
	pointMap(m, out, modeling.NormalAttribute, "ScaleAttribute3D(normal)", func(i int, v vector3.Float64) vector3.Float64 {
		return vector3.New(o.X()+(v.X()-o.X())*s.X(), o.Y()+(v.Y()-o.Y())*s.Y(), o.Z()+(v.Z()-o.Z())*s.Z())
	})
	d := sv3("d")
	out2 := meshops.TranslateAttribute3D(m, modeling.NormalAttribute, d)
	othersUntouched(m, out2, modeling.NormalAttribute, "TranslateAttribute3D(normal)")
	pointMap(m, out2, modeling.NormalAttribute, "TranslateAttribute3D(normal)", func(i int, v vector3.Float64) vector3.Float64 {
		return vector3.New(v.X()+d.X(), v.Y()+d.Y(), v.Z()+d.Z())
	})
}

func ZZ_C03_Rotate() {
	m := transformInput()
	q := quaternion.New(sv3("q.v"), zz.Float64("q.w"))
	out := m.Rotate(q)
	othersUntouched(m, out, modeling.PositionAttribute, "Rotate")
	pointMap(m, out, modeling.PositionAttribute, "Rotate", func(i int, v vector3.Float64) vector3.Float64 { return q.Rotate(v) })
	out2 := meshops.RotateAttribute3D(m, modeling.PositionAttribute, q)
	othersUntouched(m, out2, modeling.PositionAttribute, "RotateAttribute3D")
	pointMap(m, out2, modeling.PositionAttribute, "RotateAttribute3D", func(i int, v vector3.Float64) vector3.Float64 { return q.Rotate(v) })
}

func ZZ_C03_ApplyTRS() {
	m := transformInput()
	t := trs.New(sv3("t.p"), quaternion.New(sv3("t.q.v"), zz.Float64("t.q.w")), sv3("t.s"))
	out := m.ApplyTRS(t)
	othersUntouched(m, out, modeling.PositionAttribute, "ApplyTRS")
	pointMap(m, out, modeling.PositionAttribute, "ApplyTRS", func(i int, v vector3.Float64) vector3.Float64 { return t.Transform(v) })
}

func ZZ_C03_Center() {
	m := transformInput()
	out := meshops.CenterFloat3Attribute(m, modeling.PositionAttribute)
	othersUntouched(m, out, modeling.PositionAttribute, "Center")
	// after centring, the bounding box of the attribute is symmetric about the origin, and all
	// pairwise differences are preserved
	p, q := m.Float3Attribute(modeling.PositionAttribute), out.Float3Attribute(modeling.PositionAttribute)
	zz.Assert(p.Len() == q.Len(), "Center: resized")
	if p.Len() != q.Len() || p.Len() == 0 {
		return
	}
	for i := 1; i < p.Len(); i++ {
		zz.AssertNear(q.At(i).X()-q.At(0).X(), p.At(i).X()-p.At(0).X(), "Center: differences preserved x")
		zz.AssertNear(q.At(i).Y()-q.At(0).Y(), p.At(i).Y()-p.At(0).Y(), "Center: differences preserved y")
		zz.AssertNear(q.At(i).Z()-q.At(0).Z(), p.At(i).Z()-p.At(0).Z(), "Center: differences preserved z")
	}
	mn, mx := q.At(0).X(), q.At(0).X()
	for i := 1; i < q.Len(); i++ {
		mn = math.Min(mn, q.At(i).X())
		mx = math.Max(mx, q.At(i).X())
	}
	zz.AssertNear(mn+mx, 0, "Center: x extent symmetric about the origin")
}

// weld by position: surviving corners stay in their rounding cell, triangles that do not collapse survive in
// order, and every attribute of a welded vertex comes from the first vertex of its class.
func ZZ_C03_Weld() {
	PosMode = 4
	V := 1 + zz.Choose("V", zz.Bound("V"))
	T := zz.Choose("T", zz.Bound("T")+1)
	idx := make([]int, 3*T)
	for i := range idx {
		idx[i] = zz.Choose(fmt.Sprintf("idx[%d]", i), V)
	}
	pos := make([]vector3.Float64, V)
	tag := make([]float64, V)
	for i := 0; i < V; i++ {
		pos[i] = symPos(fmt.Sprintf("pos[%d]", i))
		tag[i] = zz.Float64(fmt.Sprintf("tag[%d]", i))
	}
	m := modeling.NewTriangleMesh(idx).SetFloat3Attribute(modeling.PositionAttribute, pos).SetFloat1Attribute(atrV1, tag)
	zz.Reach("input")
	out := m.WeldByFloat3Attribute(modeling.PositionAttribute, 1)
	// the rounding cell at one decimal place, restated here (round half away from zero) rather than taken from the
	// code under test
	r1 := func(x float64) int { return int(math.Round(x * 10)) }
	cell := func(v vector3.Float64) modeling.VectorInt {
		return modeling.VectorInt{X: r1(v.X()), Y: r1(v.Y()), Z: r1(v.Z())}
	}
	for i := 0; i < V; i++ {
		zz.Assert(modeling.Vector3ToInt(pos[i], 1) == cell(pos[i]), "Vector3ToInt: the rounding cell is the coordinate rounded to the decimal place")
	}
	// first vertex of every class
	first := make([]int, V)
	for i := 0; i < V; i++ {
		first[i] = i
		for j := i - 1; j >= 0; j-- {
			if cell(pos[j]) == cell(pos[i]) {
				first[i] = j
			}
		}
	}
	type corner struct {
		cell modeling.VectorInt
		tag  uint64
	}
	var want []corner
	for t := 0; t < T; t++ {
		a, b, c := idx[3*t], idx[3*t+1], idx[3*t+2]
		ca, cb, cc := cell(pos[a]), cell(pos[b]), cell(pos[c])
		if ca == cb || ca == cc || cb == cc {
			continue // collapses
		}
		for _, v := range []int{a, b, c} {
			want = append(want, corner{cell(pos[v]), math.Float64bits(tag[first[v]])})
		}
	}
	oi := out.Indices()
	zz.Assert(oi.Len() == len(want), "Weld: exactly the non-collapsing triangles survive")
	if oi.Len() != len(want) || len(want) == 0 {
		return
	}
	op, ot := out.Float3Attribute(modeling.PositionAttribute), out.Float1Attribute(atrV1)
	for k := range want {
		v := oi.At(k)
		zz.Assert(v >= 0 && v < op.Len(), "Weld: index in range")
		if !(v >= 0 && v < op.Len()) {
			return
		}
		zz.Assert(cell(op.At(v)) == want[k].cell, "Weld: a surviving corner stays in its rounding cell, in order")
		zz.Assert(math.Float64bits(ot.At(v)) == want[k].tag, "Weld: attributes come from the first vertex of the class")
	}
	zz.Reach("checked")
}
