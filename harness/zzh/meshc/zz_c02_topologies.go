package meshc

import (
	"fmt"

	"github.com/EliCDavis/polyform/modeling"
	"github.com/EliCDavis/polyform/modeling/meshops"
	zz "github.com/EliCDavis/polyform/zzverif"
	"github.com/EliCDavis/vector/vector2"
	"github.com/EliCDavis/vector/vector3"
)

// a well-formed mesh of one of the topologies the triangle/point harnesses do not reach: quads (index count a
// multiple of four), lines (pairs), line strips and line loops (any count). V vertices with position and uv,
// symbolic in-range indices (repeated and unreferenced vertices included).
func otherTopoMesh(name string) (modeling.Mesh, []int, []vector3.Float64, []vector2.Float64) {
	topos := []modeling.Topology{modeling.QuadTopology, modeling.LineTopology, modeling.LineStripTopology, modeling.LineLoopTopology}
	topo := topos[zz.Choose(name+".topology", len(topos))]
	V := 1 + zz.Choose(name+".V", zz.Bound("V"))
	var n int
	switch topo {
	case modeling.QuadTopology:
		n = 4 * zz.Choose(name+".quads", zz.Bound("Q")+1)
	case modeling.LineTopology:
		n = 2 * zz.Choose(name+".lines", zz.Bound("N")/2+1)
	default:
		n = zz.Choose(name+".indices", zz.Bound("N")+1)
	}
	idx := make([]int, n)
	for i := range idx {
		idx[i] = zz.Int(fmt.Sprintf("%s.idx[%d]", name, i), 0, V-1)
	}
	pos := make([]vector3.Float64, V)
	uv := make([]vector2.Float64, V)
	for i := 0; i < V; i++ {
		pos[i] = sv3(fmt.Sprintf("%s.pos[%d]", name, i))
		uv[i] = sv2(fmt.Sprintf("%s.uv[%d]", name, i))
	}
	m := modeling.NewMesh(topo, idx).SetFloat3Attribute(modeling.PositionAttribute, pos).SetFloat2Attribute(modeling.TexCoordAttribute, uv)
	return m, idx, pos, uv
}

func same3(a, b vector3.Float64) bool { return a.X() == b.X() && a.Y() == b.Y() && a.Z() == b.Z() }
func same2(a, b vector2.Float64) bool { return a.X() == b.X() && a.Y() == b.Y() }

// corner i of the result carries what corner i of the input carried
func sameCorners(out modeling.Mesh, idx []int, pos []vector3.Float64, uv []vector2.Float64, tag string) {
	oi := out.Indices()
	zz.Assert(oi.Len() == len(idx), tag+": keeps the number of corners")
	if oi.Len() != len(idx) {
		return
	}
	L := out.AttributeLength()
	op, ou := out.Float3Attribute(modeling.PositionAttribute), out.Float2Attribute(modeling.TexCoordAttribute)
	for i := range idx {
		v := oi.At(i)
		if v < 0 || v >= L || v >= op.Len() || v >= ou.Len() {
			continue // reported by WF
		}
		zz.Assert(same3(op.At(v), pos[idx[i]]), tag+": corner keeps its position")
		zz.Assert(same2(ou.At(v), uv[idx[i]]), tag+": corner keeps its texture coordinate")
	}
}

func ZZ_C02_OtherTopologies() {
	m, idx, pos, uv := otherTopoMesh("m")
	zz.Reach("input")
	switch zz.Choose("operation", 4) {
	case 0:
		out := meshops.Unweld(m)
		WF(out, "Unweld(other topology)")
		zz.Assert(out.Topology() == m.Topology(), "Unweld keeps the topology")
		zz.Assert(out.AttributeLength() == len(idx), "Unweld: one vertex per corner")
		sameCorners(out, idx, pos, uv, "Unweld(other topology)")
	case 1:
		out := meshops.RemovedUnreferencedVertices(m)
		WF(out, "RemovedUnreferencedVertices(other topology)")
		zz.Assert(out.Topology() == m.Topology(), "RemovedUnreferencedVertices keeps the topology")
		sameCorners(out, idx, pos, uv, "RemovedUnreferencedVertices(other topology)")
	case 2:
		out := m.Append(m)
		WF(out, "Append(other topology)")
		zz.Assert(out.AttributeLength() == 2*len(pos), "Append: attribute arrays are concatenated")
	case 3:
		d := sv3("d")
		out := m.Translate(d)
		WF(out, "Translate(other topology)")
		zz.Assert(out.Indices().Len() == len(idx), "Translate keeps the indices")
		zz.Assert(out.PrimitiveCount() == m.PrimitiveCount(), "Translate keeps the primitive count")
	}
	zz.Reach("done")
}
