package meshc

import (
	"fmt"

	"github.com/EliCDavis/polyform/modeling"
	"github.com/EliCDavis/polyform/modeling/meshops"
	zz "github.com/EliCDavis/polyform/zzverif"
	"github.com/EliCDavis/vector/vector3"
)

func finite3(v vector3.Float64) bool {
	ok := func(x float64) bool { return x == x && x-x == 0 } // neither NaN nor infinite (meaningful in the native replay)
	return ok(v.X()) && ok(v.Y()) && ok(v.Z())
}

// a triangle mesh with V vertices (all attributes of mix 1 or 2), T triangles with symbolic, pairwise different
// corner indices; unreferenced vertices are possible
func properTriMesh() modeling.Mesh {
	m := SymMesh("m", modeling.TriangleTopology, zz.Bound("V"), zz.Bound("T"), 2)
	zz.Assume(m.HasFloat3Attribute(modeling.PositionAttribute))
	idx := m.Indices()
	for t := 0; t+2 < idx.Len(); t += 3 {
		a, b, c := idx.At(t), idx.At(t+1), idx.At(t+2)
		zz.Assume(a != b && b != c && a != c)
	}
	zz.Reach("input")
	return m
}

// Laplacian smoothing, one iteration: only the target attribute changes; every vertex moves towards the average
// of its neighbours by the smoothing factor (vertices are updated in order, as the operation documents by being
// in place); a vertex without neighbours stays where it is and stays finite.
func ZZ_C03_Laplacian() {
	m := properTriMesh()
	f := zz.Float64("factor")
	zz.Assume(f >= 0)
	zz.Assume(f <= 1)
	out := meshops.LaplacianSmooth(m, modeling.PositionAttribute, 1, f)
	othersUntouched(m, out, modeling.PositionAttribute, "LaplacianSmooth")
	p, q := m.Float3Attribute(modeling.PositionAttribute), out.Float3Attribute(modeling.PositionAttribute)
	zz.Assert(p.Len() == q.Len(), "LaplacianSmooth: resized")
	if p.Len() != q.Len() {
		return
	}
	V := p.Len()
	idx := m.Indices()
	linked := make([][]bool, V)
	for i := range linked {
		linked[i] = make([]bool, V)
	}
	for t := 0; t+2 < idx.Len(); t += 3 {
		a, b, c := idx.At(t), idx.At(t+1), idx.At(t+2)
		linked[a][b], linked[b][a] = true, true
		linked[b][c], linked[c][b] = true, true
		linked[a][c], linked[c][a] = true, true
	}
	cur := make([]vector3.Float64, V)
	for i := 0; i < V; i++ {
		cur[i] = p.At(i)
	}
	for i := 0; i < V; i++ {
		zz.Assert(finite3(q.At(i)), "LaplacianSmooth: a finite mesh stays finite")
		n := 0
		sum := vector3.Zero[float64]()
		for j := 0; j < V; j++ {
			if linked[i][j] {
				n++
				sum = sum.Add(cur[j])
			}
		}
		if n > 0 {
			avg := sum.DivByConstant(float64(n))
			cur[i] = cur[i].Add(avg.Sub(cur[i]).Scale(f))
		}
		g := q.At(i)
		zz.AssertNear(g.X(), cur[i].X(), fmt.Sprintf("LaplacianSmooth: vertex moves towards the average of its neighbours (x, %d neighbours)", n))
		zz.AssertNear(g.Y(), cur[i].Y(), fmt.Sprintf("LaplacianSmooth: vertex moves towards the average of its neighbours (y, %d neighbours)", n))
		zz.AssertNear(g.Z(), cur[i].Z(), fmt.Sprintf("LaplacianSmooth: vertex moves towards the average of its neighbours (z, %d neighbours)", n))
	}
}

// NormalizeAttribute3D scales the attribute so that its longest vector has unit length: q_i * L = p_i with
// L = max |p_j| (checked square-root free), everything else untouched. One vector is symbolic, the others are
// concrete (with all of them symbolic the queries did not finish in 5 min).
func ZZ_C03_Normalize() {
	pos := []vector3.Float64{sv3("p0"), vector3.New(0.6, 0.8, 0.), vector3.New(0., -0.25, 0.5)}
	tag := []float64{zz.Float64("tag0"), zz.Float64("tag1"), zz.Float64("tag2")}
	m := modeling.NewTriangleMesh([]int{0, 1, 2}).SetFloat3Attribute(modeling.PositionAttribute, pos).SetFloat1Attribute(atrV1, tag)
	zz.Reach("input")
	L2 := 0.0
	for i := range pos {
		if l := pos[i].LengthSquared(); l > L2 {
			L2 = l
		}
	}
	out := meshops.NormalizeAttribute3D(m, modeling.PositionAttribute)
	othersUntouched(m, out, modeling.PositionAttribute, "NormalizeAttribute3D")
	q := out.Float3Attribute(modeling.PositionAttribute)
	zz.Assert(q.Len() == len(pos), "NormalizeAttribute3D: resized")
	if q.Len() != len(pos) {
		return
	}
	for i := range pos {
		a, b := pos[i], q.At(i)
		for c := 0; c < 3; c++ {
			zz.AssertNear(b.Component(c)*b.Component(c)*L2, a.Component(c)*a.Component(c), "NormalizeAttribute3D: every component is divided by the largest length")
			zz.Assert(a.Component(c)*b.Component(c) >= 0, "NormalizeAttribute3D: signs are kept")
		}
	}
}

// flat / smooth normals: only the normal attribute changes (or appears); every referenced vertex gets a unit
// normal that is positively parallel to the (flat: its face's; smooth: the area-weighted sum of its incident
// faces') normal. One vertex position is symbolic, the others concrete; either winding; one or two triangles
// sharing an edge; an unreferenced vertex. Triangles are assumed non-degenerate (area bounded away from zero).
func normalsHarness(smooth bool) {
	pos := []vector3.Float64{sv3("p0"), vector3.New(1., 0., 0.), vector3.New(0., 1., 0.), vector3.New(-1., 0., 0.5), vector3.New(7., 7., 7.)}
	idx := []int{0, 1, 2}
	if zz.Bool("flipped") {
		idx = []int{0, 2, 1}
	}
	if zz.Bound("T") >= 2 && zz.Bool("two triangles") {
		idx = append(idx, 0, 2, 3)
	}
	tag := make([]float64, len(pos))
	for i := range tag {
		tag[i] = zz.Float64(fmt.Sprintf("tag%d", i))
	}
	m := modeling.NewTriangleMesh(idx).SetFloat3Attribute(modeling.PositionAttribute, pos).SetFloat1Attribute(atrV1, tag)
	cross := func(t int) vector3.Float64 {
		return pos[idx[t+1]].Sub(pos[idx[t]]).Cross(pos[idx[t+2]].Sub(pos[idx[t]]))
	}
	for t := 0; t+2 < len(idx); t += 3 {
		zz.Assume(cross(t).LengthSquared() > 0.01)
	}
	zz.Reach("input")
	var out modeling.Mesh
	tagS := "FlatNormals"
	if smooth {
		tagS = "SmoothNormals"
		out = meshops.SmoothNormals(m)
	} else {
		out = meshops.FlatNormals(m)
	}
	othersUntouched(m, out, modeling.NormalAttribute, tagS)
	zz.Assert(out.HasFloat3Attribute(modeling.NormalAttribute), tagS+": normals present")
	if !out.HasFloat3Attribute(modeling.NormalAttribute) {
		return
	}
	n := out.Float3Attribute(modeling.NormalAttribute)
	zz.Assert(n.Len() == len(pos), tagS+": one normal per vertex")
	if n.Len() != len(pos) {
		return
	}
	for v := range pos {
		want := vector3.Zero[float64]()
		used := false
		for t := 0; t+2 < len(idx); t += 3 {
			if idx[t] == v || idx[t+1] == v || idx[t+2] == v {
				used = true
				if smooth {
					want = want.Add(cross(t))
				} else {
					want = cross(t)
				}
			}
		}
		if !used {
			continue
		}
		zz.Assume(want.LengthSquared() > 0.01) // smooth: incident faces that cancel exactly have no direction
		g := n.At(v)
		zz.Assert(finite3(g), tagS+": normal is finite")
		zz.AssertNear(g.LengthSquared(), 1, tagS+": unit length")
		x := g.Cross(want)
		zz.AssertNear(x.X(), 0, tagS+": parallel to the face normal (x)")
		zz.AssertNear(x.Y(), 0, tagS+": parallel to the face normal (y)")
		zz.AssertNear(x.Z(), 0, tagS+": parallel to the face normal (z)")
		zz.Assert(g.Dot(want) > 0, tagS+": on the side the winding defines")
	}
}

func ZZ_C03_FlatNormals()   { normalsHarness(false) }
func ZZ_C03_SmoothNormals() { normalsHarness(true) }

// RemoveNullFaces3D keeps exactly the triangles whose area exceeds the threshold, in order, with their corner
// content: five concrete positions (three of them collinear, two coincident), every index pattern (enumerated by
// path forking), symbolic payload attribute
func ZZ_C03_RemoveNullFaces() {
	pos := []vector3.Float64{vector3.New(0., 0., 0.), vector3.New(1., 0., 0.), vector3.New(0., 1., 0.), vector3.New(2., 0., 0.), vector3.New(1., 0., 0.)}
	V := len(pos)
	T := 1 + zz.Choose("T", zz.Bound("T"))
	idx := make([]int, 3*T)
	for i := range idx {
		idx[i] = zz.Choose(fmt.Sprintf("idx[%d]", i), V)
	}
	tag := make([]float64, V)
	for i := range tag {
		tag[i] = zz.Float64(fmt.Sprintf("tag[%d]", i))
	}
	m := modeling.NewTriangleMesh(idx).SetFloat3Attribute(modeling.PositionAttribute, pos).SetFloat1Attribute(atrV1, tag)
	minArea := []float64{0, 0.4, 1.5}[zz.Choose("minArea", 3)]
	zz.Reach("input")
	out := meshops.RemoveNullFaces3D(m, modeling.PositionAttribute, minArea)
	if out.PrimitiveCount() > 0 {
		// (with no surviving triangle there is no corner content; the result is the empty mesh)
		zz.Assert(sameNames(m, out, "RemoveNullFaces3D"), "RemoveNullFaces3D: attribute set kept")
	}
	in, got := cornerTuples(m), cornerTuplesNamed(out, m)
	k := 0
	for t := 0; t+2 < len(idx); t += 3 {
		c := pos[idx[t+1]].Sub(pos[idx[t]]).Cross(pos[idx[t+2]].Sub(pos[idx[t]]))
		if c.LengthSquared()/4 > minArea*minArea {
			for j := 0; j < 3; j++ {
				zz.Assert(k < len(got), "RemoveNullFaces3D: a triangle above the area threshold was dropped")
				if k < len(got) {
					sameTuple(in[t+j], got[k], "RemoveNullFaces3D: corner content of a surviving triangle")
				}
				k++
			}
		}
	}
	zz.Assert(k == len(got), "RemoveNullFaces3D: a triangle at or below the area threshold survived")
}
