package spz

import (
	"fmt"
	"math"

	"github.com/EliCDavis/polyform/modeling"
	zz "github.com/EliCDavis/polyform/zzverif"
)

func zzBits(f float64) uint64 { return math.Float64bits(f) }

func zzSame(got, want float64, label string) {
	zz.Assert(zzBits(got) == zzBits(want), label)
}

// version 2 positions: 24-bit little-endian two's complement fixed point with fb fractional bits.
func ZZ_C15_SpzPositionsV2() {
	n := zz.Choose("n", zz.Bound("N")+1)
	fb := zz.Choose("fb", 25)
	h := Header{Magic: magicNum, Version: 2, NumPoints: uint32(n), FractionalBits: uint8(fb)}
	data := zz.Bytes("pos", 9*n)
	zz.Reach("input")
	got, err := h.readPositions(&zz.Buf{B: data, Limit: -1})
	zz.Assert(err == nil, "readPositions(v2) failed on a complete array")
	zz.Assert(len(got) == n, "readPositions(v2): one position per point")
	if err != nil || len(got) != n {
		return
	}
	scale := math.Ldexp(1, -fb)
	for i := 0; i < n; i++ {
		for c := 0; c < 3; c++ {
			o := 9*i + 3*c
			raw := int32(data[o]) | int32(data[o+1])<<8 | int32(data[o+2])<<16
			raw = (raw << 8) >> 8 // sign extension of the 24-bit value
			want := float64(raw) * scale
			zzSame(got[i].Component(c), want, "SPZ v2 position = sign-extended 24-bit value / 2^fractionalBits")
		}
	}
}

// version 1 positions: IEEE binary16. The reference is the solver's own binary16 sort.
func ZZ_C15_SpzPositionsV1() {
	h := Header{Magic: magicNum, Version: 1, NumPoints: 1}
	exps := []uint16{0, 15, 30, 1, 14, 16}[:zz.Bound("EXPS")]
	var halves [3]uint16
	data := make([]byte, 6)
	for c := 0; c < 3; c++ {
		e := exps[zz.Choose(fmt.Sprintf("exp%d", c), len(exps))]
		lo := zz.Byte(fmt.Sprintf("lo%d", c))
		hi := zz.Byte(fmt.Sprintf("hi%d", c)) // only sign bit and the two top mantissa bits are taken from hi
		hv := uint16(lo) | uint16(hi&0x83)<<8 | e<<10
		halves[c] = hv
		data[2*c] = byte(hv)
		data[2*c+1] = byte(hv >> 8)
	}
	zz.Reach("input")
	got, err := h.readPositions(&zz.Buf{B: data, Limit: -1})
	zz.Assert(err == nil, "readPositions(v1) failed on a complete array")
	zz.Assert(len(got) == 1, "readPositions(v1): one position per point")
	if err != nil || len(got) != 1 {
		return
	}
	for c := 0; c < 3; c++ {
		zz.Assert(got[0].Component(c) == zz.HalfToFloat64(halves[c]), "SPZ v1 position = IEEE binary16 value")
	}
}

func ZZ_C15_SpzAlphasColorsScales() {
	n := zz.Choose("n", zz.Bound("N")+1)
	h := Header{Magic: magicNum, Version: 2, NumPoints: uint32(n)}
	zz.Reach("input")
	a := zz.Bytes("alpha", n)
	alphas, err := h.readAlphas(&zz.Buf{B: a, Limit: -1})
	zz.Assert(err == nil && len(alphas) == n, "readAlphas: one value per point")
	c := zz.Bytes("color", 3*n)
	colors, err2 := h.readColors(&zz.Buf{B: c, Limit: -1})
	zz.Assert(err2 == nil && len(colors) == n, "readColors: one value per point")
	s := zz.Bytes("scale", 3*n)
	scales, err3 := h.readScale(&zz.Buf{B: s, Limit: -1})
	zz.Assert(err3 == nil && len(scales) == n, "readScale: one value per point")
	if err != nil || err2 != nil || err3 != nil || len(alphas) != n || len(colors) != n || len(scales) != n {
		return
	}
	for i := 0; i < n; i++ {
		zzSame(alphas[i], float64(a[i])/255., "SPZ alpha i = byte i / 255")
		for k := 0; k < 3; k++ {
			zzSame(colors[i].Component(k), (float64(c[3*i+k])/255.-0.5)/0.15, "SPZ colour = (byte/255 - 0.5)/0.15 of its own record")
			zzSame(scales[i].Component(k), float64(s[3*i+k])/16.0-10.0, "SPZ scale = byte/16 - 10 of its own record")
		}
	}
}

func ZZ_C15_SpzRotations() {
	n := zz.Choose("n", zz.Bound("N")+1)
	h := Header{Magic: magicNum, Version: 2, NumPoints: uint32(n)}
	r := zz.Bytes("rot", 3*n)
	zz.Reach("input")
	rots, err := h.readRotations(&zz.Buf{B: r, Limit: -1})
	zz.Assert(err == nil && len(rots) == n, "readRotations: one value per point")
	if err != nil || len(rots) != n {
		return
	}
	const scale = 1. / 127.5
	for i := 0; i < n; i++ {
		x := float64(r[3*i])*scale - 1
		y := float64(r[3*i+1])*scale - 1
		z := float64(r[3*i+2])*scale - 1
		zzSame(rots[i].X(), x, "SPZ rotation x = byte/127.5 - 1 of its own record")
		zzSame(rots[i].Y(), y, "SPZ rotation y")
		zzSame(rots[i].Z(), z, "SPZ rotation z")
		zzSame(rots[i].W(), math.Sqrt(math.Max(0, 1-(x*x+y*y+z*z))), "SPZ rotation w completes the unit quaternion")
	}
}

func ZZ_C15_SpzSH() {
	n := zz.Choose("n", zz.Bound("N")+1)
	deg := zz.Choose("deg", 4)
	h := Header{Magic: magicNum, Version: 2, NumPoints: uint32(n), ShDegree: uint8(deg)}
	dims := []int{0, 3, 8, 15}
	dim := dims[deg]
	d := zz.Bytes("sh", n*3*dim)
	zz.Reach("input")
	sh, err := h.readSh(&zz.Buf{B: d, Limit: -1})
	zz.Assert(err == nil, "readSh failed on a complete array")
	if err != nil {
		return
	}
	zz.Assert(len(sh) == dim, "readSh: one array per harmonic coefficient")
	if len(sh) != dim {
		return
	}
	for k := 0; k < dim; k++ {
		zz.Assert(len(sh[k]) == n, "readSh: every coefficient array has numPoints entries")
		if len(sh[k]) != n {
			return
		}
		for i := 0; i < n; i++ {
			for c := 0; c < 3; c++ {
				b := d[i*3*dim+k*3+c]
				zzSame(sh[k][i].Component(c), (float64(b)-128.0)/128.0, "SPZ SH coefficient = (byte-128)/128 of its own record")
			}
		}
	}
}

// end to end: header + arrays in the published order; every attribute equals what its own array decodes to.
func ZZ_C15_SpzReadOrder() { zzSpzReadOrder(0) }

// the same with a reader that may return short reads (the io.Reader contract; the real gzip reader does so at its
// 32 KiB window boundaries): the result must not depend on how the stream is chunked
func ZZ_C15_SpzReadShortReads() { zzSpzReadOrder(1) }

func zzSpzReadOrder(short int) {
	n := 1 + zz.Choose("n", zz.Bound("N"))
	deg := zz.Choose("deg", 2)
	dims := []int{0, 3, 8, 15}
	dim := dims[deg]
	h := Header{Magic: magicNum, Version: 2, NumPoints: uint32(n), ShDegree: uint8(deg), FractionalBits: 12}
	hb := []byte{0x4e, 0x47, 0x53, 0x50, 2, 0, 0, 0, byte(n), 0, 0, 0, byte(deg), 12, 0, 0}
	pos, al, col, sc, rot, sh := zz.Bytes("pos", 9*n), zz.Bytes("alpha", n), zz.Bytes("color", 3*n), zz.Bytes("scale", 3*n), zz.Bytes("rot", 3*n), zz.Bytes("sh", 3*dim*n)
	var stream []byte
	for _, part := range [][]byte{hb, pos, al, col, sc, rot, sh} {
		stream = append(stream, part...)
	}
	zz.Reach("input")
	cloud, err := Read(&zz.Buf{B: stream, Limit: -1, Short: short})
	zz.Assert(err == nil, "Read failed on a complete stream")
	if err != nil {
		return
	}
	m := cloud.Mesh
	zz.Assert(m.AttributeLength() == n, "Read: every attribute array has numPoints entries")
	wantPos, _ := h.readPositions(&zz.Buf{B: pos, Limit: -1})
	wantAl, _ := h.readAlphas(&zz.Buf{B: al, Limit: -1})
	wantCol, _ := h.readColors(&zz.Buf{B: col, Limit: -1})
	wantSc, _ := h.readScale(&zz.Buf{B: sc, Limit: -1})
	wantRot, _ := h.readRotations(&zz.Buf{B: rot, Limit: -1})
	gp, gc, gs := m.Float3Attribute(modeling.PositionAttribute), m.Float3Attribute(modeling.FDCAttribute), m.Float3Attribute(modeling.ScaleAttribute)
	ga, gr := m.Float1Attribute(modeling.OpacityAttribute), m.Float4Attribute(modeling.RotationAttribute)
	for i := 0; i < n; i++ {
		zzSame(ga.At(i), wantAl[i], "Read: opacity comes from the alpha array")
		for c := 0; c < 3; c++ {
			zzSame(gp.At(i).Component(c), wantPos[i].Component(c), "Read: position comes from the position array")
			zzSame(gc.At(i).Component(c), wantCol[i].Component(c), "Read: colour comes from the colour array")
			zzSame(gs.At(i).Component(c), wantSc[i].Component(c), "Read: scale comes from the scale array")
			zzSame(gr.At(i).Component(c), wantRot[i].Component(c), "Read: rotation comes from the rotation array")
		}
	}
	if dim > 0 {
		wantSh, _ := h.readSh(&zz.Buf{B: sh, Limit: -1})
		for k := 0; k < dim; k++ {
			g := m.Float3Attribute(fmt.Sprintf("SH_%d", k))
			for i := 0; i < n; i++ {
				for c := 0; c < 3; c++ {
					zzSame(g.At(i).Component(c), wantSh[k][i].Component(c), "Read: SH coefficient comes from the SH array")
				}
			}
		}
	}
}
