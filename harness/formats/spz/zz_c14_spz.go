package spz

import (
	zz "github.com/EliCDavis/polyform/zzverif"
)

// every strict prefix of an SPZ stream (gzip framing stubbed to identity) is rejected
func ZZ_C14_SpzRead() {
	n := 1 + zz.Choose("n", zz.Bound("N"))
	deg := zz.Choose("deg", 2)
	dims := []int{0, 3, 8, 15}
	dim := dims[deg]
	hb := []byte{0x4e, 0x47, 0x53, 0x50, 2, 0, 0, 0, byte(n), 0, 0, 0, byte(deg), 12, 0, 0}
	body := zz.Bytes("body", n*(9+1+3+3+3+3*dim))
	stream := append(append([]byte{}, hb...), body...)
	cut := zz.Int("cut", 0, len(stream)-1)
	zz.Reach("file")
	_, err := Read(zz.GzipStream(&zz.Buf{B: stream, Limit: cut}))
	zz.Assert(err != nil, "a strict prefix of an SPZ stream was accepted")
	zz.Reach("read")
}
