package gltf

import (
	"fmt"
	"math"

	"github.com/EliCDavis/iter"
	"github.com/EliCDavis/polyform/modeling"
	zz "github.com/EliCDavis/polyform/zzverif"
	"github.com/EliCDavis/vector/vector2"
	"github.com/EliCDavis/vector/vector3"
)

func zzU16(b []byte, off int) int { return int(b[off]) | int(b[off+1])<<8 }
func zzU32(b []byte, off int) int {
	return int(b[off]) | int(b[off+1])<<8 | int(b[off+2])<<16 | int(b[off+3])<<24
}
func zzF32(b []byte, off int) float64 {
	return float64(math.Float32frombits(uint32(b[off]) | uint32(b[off+1])<<8 | uint32(b[off+2])<<16 | uint32(b[off+3])<<24))
}

// 16- vs 32-bit indices: the switch at 65535 vertices is decided without building that many vertices - the
// attribute size is a symbolic integer over the whole range, the index values are symbolic below it.
func ZZ_C06_Indices() {
	n := zz.Choose("n", zz.Bound("N")+1)
	size := zz.Int("attributeSize", 1, 1<<31-1)
	idx := make([]int, n)
	for i := range idx {
		idx[i] = zz.Int(fmt.Sprintf("idx[%d]", i), 0, 1<<31-2)
		zz.Assume(idx[i] < size)
	}
	w := NewWriter()
	zz.Reach("input")
	w.WriteIndices(iter.Array(idx), size)
	buf := w.buf.Bytes()
	zz.Assert(len(w.accessors) == 1 && len(w.bufferViews) == 1, "WriteIndices records one accessor and one buffer view")
	if len(w.accessors) != 1 || len(w.bufferViews) != 1 {
		return
	}
	a, v := w.accessors[0], w.bufferViews[0]
	zz.Assert(a.Count == n, "index accessor count")
	zz.Assert(v.ByteOffset == 0 && v.ByteLength == len(buf) && w.bytesWritten == len(buf), "index view covers exactly the bytes written")
	wide := size > 65535
	if wide {
		zz.Assert(a.ComponentType == AccessorComponentType_UNSIGNED_INT, "more than 65535 vertices need 32-bit indices")
		zz.Assert(len(buf) == 4*n, "32-bit indices take 4 bytes each")
		if len(buf) == 4*n {
			for i := range idx {
				zz.Assert(zzU32(buf, 4*i) == idx[i], "32-bit index decodes to the index value")
			}
		}
	} else {
		zz.Assert(a.ComponentType == AccessorComponentType_UNSIGNED_SHORT, "up to 65535 vertices use 16-bit indices")
		zz.Assert(len(buf) == 2*n, "16-bit indices take 2 bytes each")
		if len(buf) == 2*n {
			for i := range idx {
				zz.Assert(zzU16(buf, 2*i) == idx[i], "16-bit index decodes to the index value (no truncation)")
			}
		}
	}
	zz.Reach("checked")
}

func zzMesh(name string, topo modeling.Topology, V, P int, mix int) *modeling.Mesh {
	per := 3
	if topo == modeling.PointTopology {
		per = 1
	}
	idx := make([]int, per*P)
	for i := range idx {
		idx[i] = zz.Int(fmt.Sprintf("%s.idx[%d]", name, i), 0, V-1)
	}
	pos := make([]vector3.Float64, V)
	nrm := make([]vector3.Float64, V)
	uv := make([]vector2.Float64, V)
	for i := 0; i < V; i++ {
		pos[i] = vector3.New(zz.Float64(fmt.Sprintf("%s.p%d.x", name, i)), zz.Float64(fmt.Sprintf("%s.p%d.y", name, i)), zz.Float64(fmt.Sprintf("%s.p%d.z", name, i)))
		nrm[i] = vector3.New(zz.Float64(fmt.Sprintf("%s.n%d.x", name, i)), zz.Float64(fmt.Sprintf("%s.n%d.y", name, i)), zz.Float64(fmt.Sprintf("%s.n%d.z", name, i)))
		uv[i] = vector2.New(zz.Float64(fmt.Sprintf("%s.t%d.x", name, i)), zz.Float64(fmt.Sprintf("%s.t%d.y", name, i)))
	}
	m := modeling.NewMesh(topo, idx).SetFloat3Attribute(modeling.PositionAttribute, pos)
	if mix >= 1 {
		m = m.SetFloat3Attribute(modeling.NormalAttribute, nrm)
	}
	if mix >= 2 {
		m = m.SetFloat2Attribute(modeling.TexCoordAttribute, uv)
	}
	return &m
}

// structural validity of the writer state for a scene of 1-3 models drawn from a pool of meshes/materials
func ZZ_C06_Scene() {
	mix := zz.Choose("mix", 3)
	meshA := zzMesh("a", modeling.TriangleTopology, 1+zz.Choose("a.V", zz.Bound("V")), 1+zz.Choose("a.T", zz.Bound("T")), mix)
	meshB := zzMesh("b", modeling.PointTopology, 2, 2, 0)
	meshes := []*modeling.Mesh{meshA, meshB}
	matA := &PolyformMaterial{Name: "m"}
	matB := &PolyformMaterial{Name: "m"} // equal by value
	matC := &PolyformMaterial{Name: "other"}
	mats := []*PolyformMaterial{nil, matA, matB, matC}
	nModels := 1 + zz.Choose("models", zz.Bound("MODELS"))
	scene := PolyformScene{}
	type pick struct{ mesh, mat int }
	var picks []pick
	for k := 0; k < nModels; k++ {
		p := pick{zz.Choose(fmt.Sprintf("model%d.mesh", k), len(meshes)), zz.Choose(fmt.Sprintf("model%d.mat", k), len(mats))}
		picks = append(picks, p)
		model := PolyformModel{Name: fmt.Sprintf("model%d", k), Mesh: meshes[p.mesh], Material: mats[p.mat]}
		if zz.Bool(fmt.Sprintf("model%d.translated", k)) {
			t := vector3.New(zz.Float64(fmt.Sprintf("model%d.t.x", k)), 2, 3)
			model.Translation = &t
		}
		scene.Models = append(scene.Models, model)
	}
	zz.Reach("input")
	w, err := NewWriterFromScene(scene)
	zz.Assert(err == nil, "NewWriterFromScene failed")
	if err != nil {
		return
	}
	g := w.ToGLTF(BufferEmbeddingStrategy_GLB)
	buf := w.buf.Bytes()
	zz.Assert(len(buf) == w.bytesWritten, "bytesWritten equals the buffer length")
	zz.Assert(len(g.Buffers) == 1 && g.Buffers[0].ByteLength == len(buf), "buffer.byteLength equals the payload length")
	end := 0
	for i, v := range g.BufferViews {
		zz.Assert(v.Buffer == 0, "buffer view refers to buffer 0")
		zz.Assert(v.ByteOffset >= end, fmt.Sprintf("buffer view %d does not overlap its predecessor", i))
		zz.Assert(v.ByteLength >= 0 && v.ByteOffset+v.ByteLength <= len(buf), "buffer view lies inside the buffer")
		end = v.ByteOffset + v.ByteLength
	}
	comps := map[AccessorType]int{AccessorType_SCALAR: 1, AccessorType_VEC2: 2, AccessorType_VEC3: 3, AccessorType_VEC4: 4}
	for i, a := range g.Accessors {
		zz.Assert(a.BufferView != nil && *a.BufferView >= 0 && *a.BufferView < len(g.BufferViews), "accessor.bufferView is a valid index")
		if a.BufferView == nil || *a.BufferView < 0 || *a.BufferView >= len(g.BufferViews) {
			return
		}
		v := g.BufferViews[*a.BufferView]
		cs := a.ComponentType.Size()
		zz.Assert(a.ByteOffset+a.Count*cs*comps[a.Type] <= v.ByteLength, "accessor fits inside its buffer view")
		// alignment. One cause is known (see known_findings.json): an odd number of 16-bit indices leaves
		// the next view 2-byte aligned. It is told apart from any other misalignment by looking at what
		// precedes the view, so that a different cause is still reported as a new violation.
		afterOddIndices := false
		if bv := *a.BufferView; bv > 0 {
			prev := g.BufferViews[bv-1]
			misalignedBefore := false
			for j := 0; j < bv; j++ {
				if g.BufferViews[j].Target == ELEMENT_ARRAY_BUFFER && g.BufferViews[j].ByteLength%4 == 2 {
					misalignedBefore = true
				}
			}
			_ = prev
			afterOddIndices = misalignedBefore
		}
		_ = i
		if afterOddIndices {
			zz.Assert((v.ByteOffset+a.ByteOffset)%cs == 0, "alignment: accessor offset is a multiple of its component size (view written after an odd number of 16-bit indices)")
		} else {
			zz.Assert((v.ByteOffset+a.ByteOffset)%cs == 0, "alignment: accessor offset is a multiple of its component size")
		}
	}
	for i, n := range g.Nodes {
		zz.Assert(n.Mesh != nil && *n.Mesh >= 0 && *n.Mesh < len(g.Meshes), fmt.Sprintf("node %d refers to an existing mesh", i))
	}
	zz.Assert(len(g.Scenes) == 1 && len(g.Scenes[0].Nodes) == nModels, "one scene node per model")
	for _, n := range g.Scenes[0].Nodes {
		zz.Assert(n >= 0 && n < len(g.Nodes), "scene node index in range")
	}
	for mi, m := range g.Meshes {
		zz.Assert(len(m.Primitives) == 1, "one primitive per mesh")
		p := m.Primitives[0]
		zz.Assert(p.Indices != nil && *p.Indices >= 0 && *p.Indices < len(g.Accessors), "primitive.indices is a valid accessor")
		zz.Assert(p.Material == nil || (*p.Material >= 0 && *p.Material < len(g.Materials)), "primitive.material is a valid index")
		count := -1
		for name, ai := range p.Attributes {
			zz.Assert(ai >= 0 && ai < len(g.Accessors), "attribute accessor index in range: "+name)
			if ai < 0 || ai >= len(g.Accessors) {
				return
			}
			if count < 0 {
				count = g.Accessors[ai].Count
			}
			zz.Assert(g.Accessors[ai].Count == count, fmt.Sprintf("mesh %d: all attribute accessors have the same count", mi))
		}
	}
	// content: node k -> mesh -> accessors decode to the model's data
	for k := 0; k < nModels; k++ {
		src := meshes[picks[k].mesh]
		node := g.Nodes[g.Scenes[0].Nodes[k]]
		if node.Mesh == nil || *node.Mesh < 0 || *node.Mesh >= len(g.Meshes) {
			return
		}
		prim := g.Meshes[*node.Mesh].Primitives[0]
		if scene.Models[k].Translation != nil {
			zz.Assert(node.Translation != nil, "node carries the model's translation")
			if node.Translation != nil {
				zz.Assert(node.Translation[0] == scene.Models[k].Translation.X(), "node translation equals the model's")
			}
		} else {
			zz.Assert(node.Translation == nil, "node without a translation")
		}
		// material: each node's primitive carries its own model's material (or none)
		if mm := scene.Models[k].Material; mm == nil {
			zz.Assert(prim.Material == nil, "a model without a material is stored without one")
		} else {
			zz.Assert(prim.Material != nil, "a model with a material is stored with one")
			if prim.Material != nil && *prim.Material >= 0 && *prim.Material < len(g.Materials) {
				zz.Assert(g.Materials[*prim.Material].Name == mm.Name, "the stored material is the model's material")
			}
		}
		pa, ok := prim.Attributes["POSITION"]
		zz.Assert(ok, "POSITION attribute present")
		if !ok || prim.Indices == nil {
			return
		}
		acc := g.Accessors[pa]
		view := g.BufferViews[*acc.BufferView]
		sp := src.Float3Attribute(modeling.PositionAttribute)
		zz.Assert(acc.Count == sp.Len(), "POSITION count equals the vertex count")
		if acc.Count == sp.Len() {
			for v := 0; v < sp.Len(); v++ {
				off := view.ByteOffset + acc.ByteOffset + 12*v
				zz.Assert(zzF32(buf, off) == float64(float32(sp.At(v).X())), "POSITION.x decodes to the float32 image of the model's position")
				zz.Assert(zzF32(buf, off+8) == float64(float32(sp.At(v).Z())), "POSITION.z decodes to the float32 image of the model's position")
				zz.Assert(len(acc.Min) == 3 && acc.Min[0] <= sp.At(v).X() && acc.Max[0] >= sp.At(v).X(), "declared min/max bound every element")
			}
		}
		ia := g.Accessors[*prim.Indices]
		iv := g.BufferViews[*ia.BufferView]
		si := src.Indices()
		zz.Assert(ia.Count == si.Len(), "index count equals the model's")
		if ia.Count == si.Len() && ia.ComponentType == AccessorComponentType_UNSIGNED_SHORT {
			for i := 0; i < si.Len(); i++ {
				got := zzU16(buf, iv.ByteOffset+ia.ByteOffset+2*i)
				zz.Assert(got == si.At(i), "index decodes to the model's index")
				zz.Assert(got < acc.Count, "index value below the attribute count")
			}
		}
		// sharing: same mesh pointer and same (or equal-by-value) material -> one stored mesh
		for j := 0; j < k; j++ {
			sameMat := picks[j].mat == picks[k].mat || (picks[j].mat == 1 && picks[k].mat == 2) || (picks[j].mat == 2 && picks[k].mat == 1)
			nj := g.Nodes[g.Scenes[0].Nodes[j]]
			if picks[j].mesh == picks[k].mesh && sameMat {
				zz.Assert(*nj.Mesh == *node.Mesh, "the same mesh with the same material is stored once")
			}
			if picks[j].mesh != picks[k].mesh {
				zz.Assert(*nj.Mesh != *node.Mesh, "distinct meshes are not merged")
			}
		}
	}
	zz.Reach("checked")
}

// GLB framing: header length = bytes written, chunk lengths are padded to multiples of four, the BIN chunk is
// absent exactly when there is no binary payload, payloads are placed where the chunk headers say.
func ZZ_C06_GLB() {
	B := zz.Choose("B", zz.Bound("BIN")+1)
	w := NewWriter()
	bin := zz.Bytes("bin", B)
	w.buf.Write(bin)
	w.bytesWritten = B
	out := zz.NewBuf()
	zz.Reach("input")
	err := w.WriteGLB(out)
	zz.Assert(err == nil, "WriteGLB failed")
	b := out.B
	zz.Assert(len(b) >= 20, "GLB has a header and a JSON chunk header")
	if len(b) < 20 {
		return
	}
	zz.Assert(zzU32(b, 0) == 0x46546C67 && zzU32(b, 4) == 2, "GLB magic and version")
	zz.Assert(zzU32(b, 8) == len(b), "GLB header length equals the bytes actually written")
	jl := zzU32(b, 12)
	zz.Assert(jl%4 == 0, "JSON chunk length is a multiple of four")
	zz.Assert(zzU32(b, 16) == 0x4E4F534A, "JSON chunk type")
	zz.Assert(20+jl <= len(b), "JSON chunk lies inside the file")
	if jl%4 != 0 || 20+jl > len(b) {
		return
	}
	if B == 0 {
		zz.Assert(len(b) == 20+jl, "no BIN chunk when there is no binary payload")
		return
	}
	zz.Assert(len(b) >= 28+jl, "BIN chunk header present")
	if len(b) < 28+jl {
		return
	}
	bl := zzU32(b, 20+jl)
	zz.Assert(bl%4 == 0 && bl >= B && bl < B+4, "BIN chunk length is the payload length padded to a multiple of four")
	zz.Assert(zzU32(b, 24+jl) == 0x004E4942, "BIN chunk type")
	zz.Assert(len(b) == 28+jl+bl, "file ends with the BIN chunk")
	if len(b) == 28+jl+bl && bl >= B {
		for i := 0; i < B; i++ {
			zz.Assert(b[28+jl+i] == bin[i], "BIN chunk carries the buffer bytes")
		}
	}
	zz.Reach("checked")
}
