package gltf

import (
	"fmt"

	zz "github.com/EliCDavis/polyform/zzverif"
)

// textures shared between materials are stored once and referenced consistently: a symbolic sequence of AddTexture
// calls over a pool with a repeated pointer, an equal-by-value duplicate (distinct pointer) and a different
// texture, with and without samplers. Every returned reference - at the time of the call and after all later calls -
// resolves to a texture whose image and sampler are those of the texture handed in; equal textures are stored once.
func ZZ_C06_Textures() {
	smp := func() *Sampler { return &Sampler{MagFilter: SamplerMagFilter_LINEAR, WrapS: SamplerWrap_REPEAT, WrapT: SamplerWrap_REPEAT} }
	pool := []*PolyformTexture{
		{URI: "wood.png"},
		{URI: "wood.png"}, // equal by value, another object
		{URI: "metal.png"},
		{URI: "wood.png", Sampler: smp()},
		{URI: "metal.png", Sampler: smp()},
	}[:zz.Bound("POOL")]
	w := NewWriter()
	K := zz.Bound("CALLS")
	picks := make([]int, K)
	refs := make([]int, K)
	zz.Reach("input")
	for k := 0; k < K; k++ {
		picks[k] = zz.Choose(fmt.Sprintf("texture%d", k), len(pool))
		info := w.AddTexture(pool[picks[k]])
		zz.Assert(info != nil, "AddTexture returns a reference")
		if info == nil {
			return
		}
		refs[k] = info.Index
		for j := 0; j <= k; j++ {
			zzTextureResolves(w, refs[j], pool[picks[j]], fmt.Sprintf("texture reference of call %d after call %d", j, k))
		}
	}
	// stored once: no two stored textures are equal, no two images share a URI
	for i := range w.textures {
		for j := i + 1; j < len(w.textures); j++ {
			zz.Assert(!w.textures[i].equal(w.textures[j]), "equal textures are stored once")
		}
	}
	for i := range w.images {
		for j := i + 1; j < len(w.images); j++ {
			zz.Assert(w.images[i].URI != w.images[j].URI, "an image is stored once")
		}
	}
	zz.Reach("done")
}

func zzTextureResolves(w *Writer, ref int, want *PolyformTexture, tag string) {
	zz.Assert(ref >= 0 && ref < len(w.textures), tag+": index refers to a stored texture")
	if ref < 0 || ref >= len(w.textures) {
		return
	}
	t := w.textures[ref]
	zz.Assert(t.Source != nil && *t.Source >= 0 && *t.Source < len(w.images), tag+": texture source refers to a stored image")
	if t.Source == nil || *t.Source < 0 || *t.Source >= len(w.images) {
		return
	}
	zz.Assert(w.images[*t.Source].URI == want.URI, tag+": resolves to the image of the texture handed in")
	if want.Sampler == nil {
		zz.Assert(t.Sampler == nil, tag+": no sampler invented")
	} else {
		zz.Assert(t.Sampler != nil && *t.Sampler >= 0 && *t.Sampler < len(w.samplers), tag+": sampler refers to a stored sampler")
		if t.Sampler != nil && *t.Sampler >= 0 && *t.Sampler < len(w.samplers) {
			zz.Assert(want.Sampler.equal(&w.samplers[*t.Sampler]), tag+": resolves to the sampler of the texture handed in")
		}
	}
}
