package marching

import (
	"github.com/EliCDavis/polyform/math/geometry"
	"github.com/EliCDavis/polyform/math/sample"
	"github.com/EliCDavis/polyform/modeling"
	zz "github.com/EliCDavis/polyform/zzverif"
	"github.com/EliCDavis/vector/vector3"
)

// The harness runs with the block edge shrunk from 100 to 4 (source overlay of the single constant
// marchingSectionSize; every index computation is written in terms of it). The field below spans two blocks
// along z: canvas z in [2,5) -> block 0 holds z = 2,3 and block 1 holds z = 4.
func zzField() Field {
	a, b, c, e := zz.Float64("a"), zz.Float64("b"), zz.Float64("c"), zz.Float64("e")
	return Field{
		Domain: geometry.NewAABBFromPoints(vector3.New(1.25, 1.25, 3.25), vector3.New(1.5, 1.5, 3.5)),
		Float1Functions: map[string]sample.Vec3ToFloat{
			"f": func(v vector3.Float64) float64 { return a*v.X() + b*v.Y() + c*v.Z() + e },
		},
	}
}

func zzSameCanvas(seq, par *MarchingCanvas, tag string) { zzSameCanvasAttr(seq, par, "f", tag) }

func zzSameCanvasAttr(seq, par *MarchingCanvas, attr string, tag string) {
	ss, ok1 := seq.sections[attr]
	ps, ok2 := par.sections[attr]
	zz.Assert(ok1 && ok2, tag+": the attribute exists in both canvases")
	if !ok1 || !ok2 {
		return
	}
	zz.Assert(len(ss.positions) == len(ps.positions), tag+": same set of blocks")
	n := 0
	for pos, si := range ss.positions {
		pi, ok := ps.positions[pos]
		zz.Assert(ok, tag+": block present in the parallel canvas")
		if !ok {
			continue
		}
		a, b := seq.float1Data[si], par.float1Data[pi]
		zz.Assert(len(a) == len(b), tag+": block size")
		for i := range a {
			zz.AssertNear(b[i], a[i], tag+": sample equals the sequential sample")
			n++
		}
	}
	zz.Assert(n >= 2*marchingSectionSizeCubed, tag+": the field spans two blocks")
}

func ZZ_C10_AddFieldParallel() {
	f := zzField()
	seq, par := NewMarchingCanvas(1), NewMarchingCanvas(1)
	seq.AddField(f)
	zz.Reach("sequential")
	par.AddFieldParallel(f)
	zz.Reach("parallel")
	zzSameCanvas(seq, par, "AddFieldParallel")
}

func ZZ_C10_AddFieldParallel2() {
	f := zzField()
	seq, par := NewMarchingCanvas(1), NewMarchingCanvas(1)
	// both canvases already hold the blocks (a zero field over the same domain): accumulation onto existing
	// blocks is the common case, and it keeps the harness independent of the order in which the compiler
	// evaluates `d.float1Data[d.chunkIndex_atomic(...)]` (unspecified; go/ssa and gc differ)
	zero := Field{Domain: f.Domain, Float1Functions: map[string]sample.Vec3ToFloat{"f": func(vector3.Float64) float64 { return 0 }}}
	seq.AddField(zero)
	par.AddField(zero)
	seq.AddField(f)
	zz.Reach("sequential")
	par.AddFieldParallel2(f)
	zz.Reach("parallel")
	zzSameCanvas(seq, par, "AddFieldParallel2")
}

// a field with two scalar attributes: twice as many jobs as blocks
func ZZ_C10_AddFieldParallelTwoAttributes() {
	f := zzField()
	k := zz.Float64("k")
	f.Float1Functions["g"] = func(v vector3.Float64) float64 { return k*v.X() - v.Z() }
	seq, par := NewMarchingCanvas(1), NewMarchingCanvas(1)
	seq.AddField(f)
	zz.Reach("sequential")
	par.AddFieldParallel(f)
	zz.Reach("parallel")
	zzSameCanvasAttr(seq, par, "f", "AddFieldParallel (two attributes, f)")
	zzSameCanvasAttr(seq, par, "g", "AddFieldParallel (two attributes, g)")
}

// parallel marching: MarchParallel returns the same triangle multiset as March, for every sign pattern of a
// 2x2x2 cluster that straddles block boundaries (block edge 4), every number of workers in the bound and every
// explored schedule
func ZZ_C10_MarchParallel() {
	g := zzSymGrid(2, 2, 2, true)
	c := NewMarchingCanvas(g.cpu)
	c.AddField(g.field())
	zz.Reach("sequential")
	seq := c.March(g.cutoff)
	par := c.MarchParallel(g.cutoff)
	zz.Reach("parallel")
	ts, tp := zzTriangles(seq), zzTriangles(par)
	zz.Assert(len(ts) == len(tp), "MarchParallel: same number of triangles as March")
	used := make([]bool, len(tp))
	for _, a := range ts {
		found := false
		for j, b := range tp {
			if !used[j] && a == b {
				used[j] = true
				found = true
				break
			}
		}
		zz.Assert(found, "MarchParallel: every triangle of March occurs (with multiplicity) in the parallel result")
	}
}

type zzTri [9]float64

// zzTriangles: triangles as corner positions, rotated so that the smallest corner comes first (orientation kept)
func zzTriangles(m modeling.Mesh) []zzTri {
	idx := m.Indices()
	if idx.Len() == 0 || !m.HasFloat3Attribute(modeling.PositionAttribute) {
		return nil
	}
	pos := m.Float3Attribute(modeling.PositionAttribute)
	var out []zzTri
	for t := 0; t+2 < idx.Len(); t += 3 {
		p := [3]vector3.Float64{pos.At(idx.At(t)), pos.At(idx.At(t + 1)), pos.At(idx.At(t + 2))}
		first := 0
		for k := 1; k < 3; k++ {
			a, b := p[k], p[first]
			if a.X() < b.X() || (a.X() == b.X() && (a.Y() < b.Y() || (a.Y() == b.Y() && a.Z() < b.Z()))) {
				first = k
			}
		}
		var tr zzTri
		for k := 0; k < 3; k++ {
			q := p[(first+k)%3]
			tr[3*k], tr[3*k+1], tr[3*k+2] = q.X(), q.Y(), q.Z()
		}
		out = append(out, tr)
	}
	return out
}
