package marching

import (
	"fmt"

	"github.com/EliCDavis/polyform/math/geometry"
	"github.com/EliCDavis/polyform/math/sample"
	"github.com/EliCDavis/polyform/modeling"
	zz "github.com/EliCDavis/polyform/zzverif"
	"github.com/EliCDavis/vector/vector3"
)

// C09 - marching cubes yields a closed, outward-oriented surface on the isosurface.
//
// The harnesses run with the block edge shrunk (source overlay of the constant marchingSectionSize; every index
// computation of the canvas is written in terms of it), so that a cell cluster of a few samples straddles block
// boundaries in every axis. The field is defined on integer sample positions: the samples strictly inside the
// declared domain are below or above the threshold according to one symbolic boolean each (every sign pattern
// is explored; the solver decides which patterns are feasible under the harness assumptions), all other samples
// are above the threshold - the precondition of the property (the below-threshold region lies strictly inside
// the domain). The magnitudes of the two kinds of samples are a symbolic choice from a small set, so the
// crossing is not always at the midpoint of an edge.

var zzMags = []float64{1, 0.5, 3}

type zzGrid struct {
	ox, oy, oz int // canvas position of the domain's minimum corner
	nx, ny, nz int // number of samples strictly inside the domain per axis
	inside     []bool
	neg, pos   float64
	cpu        float64 // cubes per unit
	cutoff     float64
	distinct   bool
	frac       float64 // the domain corners are moved inward by this fraction of a cell (non-integer bounds)
	onCut      int     // 1+index of an interior sample that, when not below the threshold, is exactly on it
}

func (g *zzGrid) sampleAt(x, y, z int) float64 {
	if g.distinct {
		// storage harness: a different value at every position of a 16^3 neighbourhood
		return float64(1 + (x + 8) + 16*(y+8) + 256*(z+8))
	}
	ix, iy, iz := x-g.ox-1, y-g.oy-1, z-g.oz-1
	if ix >= 0 && iy >= 0 && iz >= 0 && ix < g.nx && iy < g.ny && iz < g.nz {
		k := (iz*g.ny+iy)*g.nx + ix
		if g.inside[k] {
			return g.cutoff - g.neg
		}
		if g.onCut == k+1 {
			return g.cutoff
		}
	}
	return g.cutoff + g.pos
}

func zzRoundInt(f float64) int {
	if f < 0 {
		return -int(-f + 0.5)
	}
	return int(f + 0.5)
}

func (g *zzGrid) field() Field {
	lo := vector3.New(float64(g.ox)+g.frac, float64(g.oy)+g.frac, float64(g.oz)+g.frac).DivByConstant(g.cpu)
	hi := vector3.New(float64(g.ox+g.nx+1)-g.frac, float64(g.oy+g.ny+1)-g.frac, float64(g.oz+g.nz+1)-g.frac).DivByConstant(g.cpu)
	return Field{
		Domain: geometry.NewAABBFromPoints(lo, hi),
		Float1Functions: map[string]sample.Vec3ToFloat{
			modeling.PositionAttribute: func(v vector3.Float64) float64 {
				return g.sampleAt(zzRoundInt(v.X()*g.cpu), zzRoundInt(v.Y()*g.cpu), zzRoundInt(v.Z()*g.cpu))
			},
		},
	}
}

func zzSymGrid(nx, ny, nz int, pattern bool) *zzGrid {
	g := &zzGrid{nx: nx, ny: ny, nz: nz, cpu: 1}
	// where the cluster sits relative to the block grid: every alignment of one block period, and negative
	// coordinates (OFFBASE may be negative)
	span := zz.Bound("OFFSPAN")
	base := zz.Bound("OFFBASE")
	g.ox = base + zz.Choose("ox", span)
	g.oy = base + zz.Choose("oy", span)
	g.oz = base + zz.Choose("oz", span)
	switch zz.Choose("cpu", zz.Bound("CPUS")) {
	case 1:
		g.cpu = 2
	case 2:
		g.cpu = 0.5
	}
	g.neg = zzMags[zz.Choose("negmag", zz.Bound("MAGS"))]
	g.pos = zzMags[zz.Choose("posmag", zz.Bound("MAGS"))]
	if zz.Choose("cut", zz.Bound("CUTS")) == 1 {
		g.cutoff = -0.75
	}
	if zz.Choose("frac", zz.Bound("FRACS")) == 1 {
		g.frac = 0.25
	}
	g.inside = make([]bool, nx*ny*nz)
	if !pattern {
		g.distinct = true
		return g
	}
	if n := zz.Bound("ONCUT"); n > 0 {
		// one interior sample lies exactly on the threshold (it counts as not below it)
		g.onCut = 1 + zz.Choose("oncut", n)
	}
	any := false
	for i := range g.inside {
		if g.onCut == i+1 {
			continue
		}
		// an explicit branch: the sign pattern is fixed per path, everything downstream is concrete
		if zz.Bool(fmt.Sprintf("inside%d", i)) {
			g.inside[i] = true
			any = true
		}
	}
	// the all-above pattern has no surface (March panics on the empty mesh - a reported failure, see DESIGN C09)
	zz.Assume(any)
	return g
}

type zzEdge struct{ a, b int }

// zzCheckSurface is the oracle: closed, consistently oriented, no degenerate face, every connected component
// encloses positive volume (no cavities are possible for the cluster sizes used), every vertex on a grid edge
// whose end samples lie on opposite sides of the threshold, at the linearly interpolated crossing.
func zzCheckSurface(g *zzGrid, m modeling.Mesh, tag string) {
	zz.Assert(m.Topology() == modeling.TriangleTopology, tag+": triangle topology")
	idx := m.Indices()
	n := idx.Len()
	zz.Assert(n > 0 && n%3 == 0, tag+": a non-empty list of whole triangles")
	zz.Assert(m.HasFloat3Attribute(modeling.PositionAttribute), tag+": positions present")
	if n == 0 || n%3 != 0 || !m.HasFloat3Attribute(modeling.PositionAttribute) {
		return
	}
	pos := m.Float3Attribute(modeling.PositionAttribute)
	L := pos.Len()
	edges := map[zzEdge]int{}
	parent := make([]int, L)
	for i := range parent {
		parent[i] = i
	}
	find := func(i int) int {
		for parent[i] != i {
			parent[i] = parent[parent[i]]
			i = parent[i]
		}
		return i
	}
	used := make([]bool, L)
	for t := 0; t < n; t += 3 {
		a, b, c := idx.At(t), idx.At(t+1), idx.At(t+2)
		ok := a >= 0 && b >= 0 && c >= 0 && a < L && b < L && c < L
		zz.Assert(ok, tag+": index in range")
		if !ok {
			return
		}
		zz.Assert(a != b && b != c && a != c, tag+": no degenerate face (repeated vertex)")
		pa, pb, pc := pos.At(a), pos.At(b), pos.At(c)
		area2 := pb.Sub(pa).Cross(pc.Sub(pa)).LengthSquared()
		zz.Assert(area2 > 1e-12, tag+": no degenerate face (zero area)")
		edges[zzEdge{a, b}]++
		edges[zzEdge{b, c}]++
		edges[zzEdge{c, a}]++
		used[a], used[b], used[c] = true, true, true
		parent[find(a)] = find(b)
		parent[find(b)] = find(c)
	}
	for e, k := range edges {
		zz.Assert(k == 1, tag+": a directed edge is used by exactly one triangle")
		zz.Assert(edges[zzEdge{e.b, e.a}] == 1, tag+": every directed edge is matched by exactly one opposite edge")
	}
	// signed volume per connected component
	vol := make([]float64, L)
	for t := 0; t < n; t += 3 {
		pa, pb, pc := pos.At(idx.At(t)), pos.At(idx.At(t+1)), pos.At(idx.At(t+2))
		vol[find(idx.At(t))] += pa.Dot(pb.Cross(pc)) / 6
	}
	for i := 0; i < L; i++ {
		if used[i] && find(i) == i {
			zz.Assert(vol[i] > 1e-9, tag+": every component is oriented outward (positive enclosed volume)")
		}
	}
	// vertices: on a crossing grid edge, at the interpolated crossing
	for i := 0; i < L; i++ {
		if !used[i] {
			continue
		}
		p := pos.At(i).Scale(g.cpu) // canvas units
		c := [3]float64{p.X(), p.Y(), p.Z()}
		lo := [3]int{}
		frac := -1
		nfrac := 0
		for k := 0; k < 3; k++ {
			r := zzRoundInt(c[k])
			d := c[k] - float64(r)
			if d < 0 {
				d = -d
			}
			if d < 1e-6 {
				lo[k] = r
			} else {
				f := zzRoundInt(c[k] - 0.5)
				if float64(f) > c[k] {
					f--
				}
				lo[k] = f
				frac = k
				nfrac++
			}
		}
		if nfrac == 0 {
			zz.Assert(g.sampleAt(lo[0], lo[1], lo[2]) == g.cutoff, tag+": a vertex on a grid sample only where the sample is exactly on the threshold")
			continue
		}
		zz.Assert(nfrac == 1, tag+": vertex lies on a grid edge (at most one non-integer coordinate)")
		if nfrac != 1 {
			continue
		}
		hi := lo
		hi[frac]++
		s0 := g.sampleAt(lo[0], lo[1], lo[2])
		s1 := g.sampleAt(hi[0], hi[1], hi[2])
		zz.Assert((s0 < g.cutoff) != (s1 < g.cutoff), tag+": vertex lies on an edge whose end samples are on opposite sides of the threshold")
		t := c[frac] - float64(lo[frac])
		at := s0 + (s1-s0)*t
		d := at - g.cutoff
		if d < 0 {
			d = -d
		}
		// the canvas welds at 3 decimal places, so the position is known to 1e-3 cells; |s1-s0| <= 6
		zz.Assert(d < 2e-2, tag+": vertex is at the linearly interpolated crossing of the threshold")
	}
}

func zzMarchCluster(nx, ny, nz int, parallel bool) {
	g := zzSymGrid(nx, ny, nz, true)
	c := NewMarchingCanvas(g.cpu)
	c.AddField(g.field())
	zz.Reach("field added")
	var m modeling.Mesh
	if parallel {
		m = c.MarchParallel(g.cutoff)
	} else {
		m = c.March(g.cutoff)
	}
	zz.Reach("marched")
	zzCheckSurface(g, m, "march")
}

// every sign pattern of a 2x2x2 cluster
func ZZ_C09_Cluster222() { zzMarchCluster(2, 2, 2, false) }

// every sign pattern of a 3x2x2 / 2x2x3 cluster (two cells sharing a face, 4096 patterns each)
func ZZ_C09_Cluster322() { zzMarchCluster(3, 2, 2, false) }
func ZZ_C09_Cluster223() { zzMarchCluster(2, 2, 3, false) }
func ZZ_C09_Cluster232() { zzMarchCluster(2, 3, 2, false) }

// the samples stored by AddField: every canvas position of the padded domain holds the field value, in the block
// and at the local index the marcher will read it from; nothing else is touched
func ZZ_C09_AddFieldStorage() {
	g := zzSymGrid(2, 2, 2, false)
	c := NewMarchingCanvas(g.cpu)
	f := g.field()
	c.AddField(f)
	zz.Reach("field added")
	sec, ok := c.sections[modeling.PositionAttribute]
	zz.Assert(ok, "storage: section exists")
	if !ok {
		return
	}
	seen := 0
	for x := g.ox - 1; x <= g.ox+g.nx+1; x++ {
		for y := g.oy - 1; y <= g.oy+g.ny+1; y++ {
			for z := g.oz - 1; z <= g.oz+g.nz+1; z++ {
				cp := c.canvasPosToChunkPos(x, y, z)
				lx, ly, lz := x-cp.X*marchingSectionSize, y-cp.Y*marchingSectionSize, z-cp.Z*marchingSectionSize
				in := lx >= 0 && ly >= 0 && lz >= 0 && lx < marchingSectionSize && ly < marchingSectionSize && lz < marchingSectionSize
				zz.Assert(in, "storage: local coordinates inside the block")
				bi, ok := sec.positions[cp]
				zz.Assert(ok, "storage: the block of a padded-domain sample exists")
				if !ok || !in {
					continue
				}
				zz.Assert(c.float1Data[bi][c.index(lx, ly, lz)] == g.sampleAt(x, y, z), "storage: stored sample equals the field value at that position")
				seen++
			}
		}
	}
	zz.Assert(seen == (g.nx+3)*(g.ny+3)*(g.nz+3), "storage: all samples of the padded domain visited")
	// nothing outside the padded domain was written (blocks are zero-initialised)
	for cp, bi := range sec.positions {
		for lz := 0; lz < marchingSectionSize; lz++ {
			for ly := 0; ly < marchingSectionSize; ly++ {
				for lx := 0; lx < marchingSectionSize; lx++ {
					x, y, z := cp.X*marchingSectionSize+lx, cp.Y*marchingSectionSize+ly, cp.Z*marchingSectionSize+lz
					if x < g.ox-1 || y < g.oy-1 || z < g.oz-1 || x > g.ox+g.nx+1 || y > g.oy+g.ny+1 || z > g.oz+g.nz+1 {
						zz.Assert(c.float1Data[bi][c.index(lx, ly, lz)] == 0, "storage: samples outside the padded domain stay untouched")
					}
				}
			}
		}
	}
}

// interpolation kernel over the reals (math mode): for samples on opposite sides of the threshold the vertex
// lies on the segment and the linear interpolation of the samples at the vertex equals the threshold
func ZZ_C09_Interpolate() {
	a, b, c := zz.Float64("a"), zz.Float64("b"), zz.Float64("c")
	zz.Assume((a < c) != (b < c))
	zz.Assume(a != b)
	p1 := vector3.New(zz.Float64("p1x"), zz.Float64("p1y"), zz.Float64("p1z"))
	p2 := vector3.New(zz.Float64("p2x"), zz.Float64("p2y"), zz.Float64("p2z"))
	zz.Reach("inputs")
	t := interpolationValueFromCutoff(a, b, c)
	zz.Assert(t >= 0 && t <= 1, "interpolate: parameter within the segment")
	zz.AssertNear(a+(b-a)*t, c, "interpolate: the interpolated sample value equals the threshold")
	v := interpolateVerts(p1, p2, a, b, c)
	zz.AssertNear(v.X(), p1.X()+(p2.X()-p1.X())*t, "interpolate: vertex x on the segment at t")
	zz.AssertNear(v.Y(), p1.Y()+(p2.Y()-p1.Y())*t, "interpolate: vertex y on the segment at t")
	zz.AssertNear(v.Z(), p1.Z()+(p2.Z()-p1.Z())*t, "interpolate: vertex z on the segment at t")
	// direction independence (the same edge is interpolated from both ends by neighbouring cells)
	w := interpolateVerts(p2, p1, b, a, c)
	zz.AssertNear(v.X(), w.X(), "interpolate: same vertex from either end (x)")
	zz.AssertNear(v.Y(), w.Y(), "interpolate: same vertex from either end (y)")
	zz.AssertNear(v.Z(), w.Z(), "interpolate: same vertex from either end (z)")
}

// block arithmetic over the integers (math mode): every canvas position belongs to exactly one block and its
// local index is inside the block's sample array
func ZZ_C09_BlockArithmetic() {
	x, y, z := zz.Int("x", -1000000, 1000000), zz.Int("y", -1000000, 1000000), zz.Int("z", -1000000, 1000000)
	c := NewMarchingCanvas(1)
	zz.Reach("inputs")
	cp := c.canvasPosToChunkPos(x, y, z)
	lx, ly, lz := x-cp.X*marchingSectionSize, y-cp.Y*marchingSectionSize, z-cp.Z*marchingSectionSize
	zz.Assert(lx >= 0 && lx < marchingSectionSize, "blocks: local x inside the block")
	zz.Assert(ly >= 0 && ly < marchingSectionSize, "blocks: local y inside the block")
	zz.Assert(lz >= 0 && lz < marchingSectionSize, "blocks: local z inside the block")
	i := c.index(lx, ly, lz)
	zz.Assert(i >= 0 && i < marchingSectionSizeCubed, "blocks: local index inside the sample array")
	// injective: a second position with the same block and index is the same position
	x2, y2, z2 := zz.Int("x2", -1000000, 1000000), zz.Int("y2", -1000000, 1000000), zz.Int("z2", -1000000, 1000000)
	cp2 := c.canvasPosToChunkPos(x2, y2, z2)
	i2 := c.index(x2-cp2.X*marchingSectionSize, y2-cp2.Y*marchingSectionSize, z2-cp2.Z*marchingSectionSize)
	if cp2 == cp && i2 == i {
		zz.Assert(x2 == x && y2 == y && z2 == z, "blocks: block and local index identify the canvas position")
	}
}
