package zzverif

import (
	"io"
	"strconv"
)

func shortName(k int) string { return "shortRead" + strconv.Itoa(k) }

// Buf is the in-memory io.Writer / io.Reader used by the codec harnesses. It is ordinary Go: the symbolic
// engine interprets it like any other code. Limit >= 0 cuts the readable prefix (C14); it may be symbolic,
// in which case each Read forks on how many bytes are still available.
type Buf struct {
	B      []byte
	R      int
	Limit  int
	Writes int
	// Short: the io.Reader contract allows a Read to return fewer bytes than asked for without an error. While
	// Short > 0, every Read of more than one byte is a choice between all available bytes and a single byte (the
	// engine explores both; natively the recorded choices are replayed); a short read uses up one unit. Code that
	// uses a bare Read where it needs io.ReadFull is exposed by a budget of one.
	Short int
	Reads int
}

func NewBuf() *Buf { return &Buf{Limit: -1} }

func (b *Buf) Write(p []byte) (int, error) {
	b.B = append(b.B, p...)
	b.Writes++
	return len(p), nil
}

func (b *Buf) WriteString(s string) (int, error) {
	b.B = append(b.B, s...)
	b.Writes++
	return len(s), nil
}

func (b *Buf) Len() int { return len(b.B) }

func (b *Buf) Read(p []byte) (int, error) {
	end := len(b.B)
	if b.Limit >= 0 && b.Limit < end {
		end = b.Limit
	}
	if b.R >= end {
		return 0, io.EOF
	}
	n := end - b.R
	if n > len(p) {
		n = len(p)
	}
	n = Concrete(n)
	if b.Short > 0 && n > 1 {
		b.Reads++
		if Choose(shortName(b.Reads), 2) == 1 {
			n = 1
			b.Short--
		}
	}
	copy(p[:n], b.B[b.R:b.R+n])
	b.R += n
	return n, nil
}

// Reader returns a fresh reader over the bytes written so far (optionally cut at limit).
func (b *Buf) Reader(limit int) *Buf { return &Buf{B: b.B, Limit: limit} }

// ReaderAtCell is Reader for text files in which the engine represents every number of the body as one
// opaque token cell: `cell` counts cells (header bytes, separators and whole numbers). The native flavour
// converts it to the byte offset of that cell boundary (headerBytes leading bytes are one cell each).
func (b *Buf) ReaderAtCell(cell int, headerBytes int) *Buf {
	return &Buf{B: b.B, Limit: cellCut(b.B, cell, headerBytes)}
}

// CellCount is the number of cells of the buffer (see ReaderAtCell).
func CellCount(b *Buf, headerBytes int) int { return cellCount(b.B, headerBytes) }
