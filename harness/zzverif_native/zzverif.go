// Package zzverif, native flavour: reads a replay file (ZZVERIF_REPLAY) produced by the symbolic
// engine and runs the same harness functions against the natively compiled real code.
package zzverif

import (
	"bytes"
	"compress/gzip"
	"io"
	"encoding/json"
	"fmt"
	"math"
	"os"
	"runtime"
	"strconv"
	"testing"
)

type modelVal struct {
	Kind string `json:"kind"`
	V    string `json:"v"`
}

type replayCase struct {
	ID     string              `json:"id"`
	Label  string              `json:"label"`
	Values map[string]modelVal `json:"values"`
	Expect string              `json:"expect"`
}

type replayFile struct {
	Harness string         `json:"harness"`
	Func    string         `json:"func"`
	Mode    string         `json:"mode"`
	Bounds  map[string]int `json:"bounds"`
	Cases   []replayCase   `json:"cases"`
}

var (
	cur      *replayCase
	file     *replayFile
	failures []string
)

type assumeFailed struct{}

func val(name string) (modelVal, bool) {
	if cur == nil {
		return modelVal{}, false
	}
	v, ok := cur.Values[name]
	return v, ok
}

func intVal(name string, def int) int {
	v, ok := val(name)
	if !ok {
		return def
	}
	i, err := strconv.ParseInt(v.V, 10, 64)
	if err != nil {
		u, _ := strconv.ParseUint(v.V, 10, 64)
		return int(u)
	}
	return int(i)
}

func Int(name string, lo, hi int) int {
	v := intVal(name, lo)
	if v < lo || v > hi {
		panic(assumeFailed{})
	}
	return v
}
func AnyInt(name string) int { return intVal(name, 0) }
func Choose(name string, n int) int {
	v := intVal(name, 0)
	if v < 0 || v >= n {
		panic(assumeFailed{})
	}
	return v
}
func Concrete(v int) int { return v }
func Bool(name string) bool {
	v, ok := val(name)
	return ok && v.V == "true"
}
func Byte(name string) byte { return byte(intVal(name, 0)) }
func Bytes(name string, n int) []byte {
	b := make([]byte, n)
	for i := range b {
		b[i] = byte(intVal(fmt.Sprintf("%s[%d]", name, i), 0))
	}
	return b
}
func Float64(name string) float64 {
	v, ok := val(name)
	if !ok {
		return 0
	}
	u, _ := strconv.ParseUint(v.V, 0, 64)
	if v.Kind == "f32" {
		return float64(math.Float32frombits(uint32(u)))
	}
	return math.Float64frombits(u)
}
func Float32(name string) float32 {
	v, ok := val(name)
	if !ok {
		return 0
	}
	u, _ := strconv.ParseUint(v.V, 0, 64)
	if v.Kind == "f32" {
		return math.Float32frombits(uint32(u))
	}
	return float32(math.Float64frombits(u))
}
func AnyFloat64(name string) float64 { return Float64(name) }
func Assume(cond bool) {
	if !cond {
		panic(assumeFailed{})
	}
}
func Assert(cond bool, label string) {
	if !cond {
		failures = append(failures, label)
	}
}
func AssertNear(a, b float64, label string) {
	if file != nil && file.Mode == "math" {
		// the solver looked for a gap of 1e-6 relative; natively accept up to a tenth of that
		tol := 1e-7 * (1 + math.Abs(a) + math.Abs(b))
		if !(math.Abs(a-b) <= tol) {
			failures = append(failures, label)
		}
		return
	}
	if !(a == b || (math.IsNaN(a) && math.IsNaN(b))) {
		failures = append(failures, label)
	}
}
func Reach(label string)          {}
func Observe(label string, v any) { fmt.Printf("OBSERVE %s %v\n", label, v) }
func Bound(name string) int {
	if file == nil {
		return 0
	}
	return file.Bounds[name]
}
func IsMath() bool   { return file != nil && file.Mode == "math" }
func Symbolic() bool { return false }
func Note(s string)  {}
func WithSpare[T any](name string, s []T, maxSpare int) []T {
	spare := Int(name, 0, maxSpare)
	ns := make([]T, len(s), len(s)+spare)
	copy(ns, s)
	return ns
}

// JSONMsg is the message a client would send for value v.
func JSONMsg(v any) []byte {
	b, err := json.Marshal(v)
	if err != nil {
		panic(err)
	}
	return b
}

func Or(a, b bool) bool      { return a || b }
func And(a, b bool) bool     { return a && b }
func Implies(a, b bool) bool { return !a || b }
func IteInt(c bool, a, b int) int {
	if c {
		return a
	}
	return b
}
func IteF(c bool, a, b float64) float64 {
	if c {
		return a
	}
	return b
}
func IteU64(c bool, a, b uint64) uint64 {
	if c {
		return a
	}
	return b
}

// HalfToFloat64: independent IEEE binary16 decoder (the engine uses the solver's own binary16 sort).
func HalfToFloat64(h uint16) float64 {
	sign := (h >> 15) & 1
	exp := int((h >> 10) & 0x1f)
	man := float64(h & 0x3ff)
	var f float64
	switch {
	case exp == 0:
		f = math.Ldexp(man, -24)
	case exp == 31:
		if man != 0 {
			return math.NaN()
		}
		f = math.Inf(1)
	default:
		f = math.Ldexp(man+1024, exp-25)
	}
	if sign == 1 {
		f = -f
	}
	return f
}

// RunReplay is called from the generated TestZZReplay.
func RunReplay(t *testing.T, funcs map[string]func()) {
	path := os.Getenv("ZZVERIF_REPLAY")
	if path == "" {
		t.Skip("no replay file")
	}
	b, err := os.ReadFile(path)
	if err != nil {
		t.Fatal(err)
	}
	var rf replayFile
	if err := json.Unmarshal(b, &rf); err != nil {
		t.Fatal(err)
	}
	file = &rf
	f, ok := funcs[rf.Func]
	if !ok {
		t.Fatalf("harness %s not found", rf.Func)
	}
	for i := range rf.Cases {
		cur = &rf.Cases[i]
		failures = nil
		outcome := runOne(f)
		// harnesses with goroutines: the schedule the engine found cannot be forced natively, so the case is
		// repeated in this process (ZZVERIF_REPEAT) until a run fails
		if n, _ := strconv.Atoi(os.Getenv("ZZVERIF_REPEAT")); n > 1 {
			for r := 1; r < n && outcome == "PASS"; r++ {
				failures = nil
				outcome = runOne(f)
			}
		}
		fmt.Printf("REPLAY-CASE %s %s\n", cur.ID, outcome)
	}
}

func runOne(f func()) (outcome string) {
	defer func() {
		r := recover()
		if r == nil {
			return
		}
		if _, ok := r.(assumeFailed); ok {
			if len(failures) > 0 {
				outcome = "VIOLATION " + failures[0]
				return
			}
			outcome = "ASSUME-FAILED"
			return
		}
		if len(failures) > 0 {
			outcome = "VIOLATION " + failures[0]
			return
		}
		if re, ok := r.(runtime.Error); ok {
			outcome = "VIOLATION runtime-panic " + re.Error()
			return
		}
		outcome = fmt.Sprintf("PANIC %v", r)
	}()
	f()
	if len(failures) > 0 {
		return "VIOLATION " + failures[0]
	}
	return "PASS"
}

// cellCut: byte offset of the boundary before cell number `cell`, where after the first headerBytes bytes a
// maximal run of number characters is one cell and every other byte is a cell of its own.
func cellCut(b []byte, cell, headerBytes int) int {
	if cell <= headerBytes {
		return cell
	}
	isNum := func(c byte) bool {
		return (c >= '0' && c <= '9') || c == '-' || c == '+' || c == '.' || c == 'e' || c == 'E'
	}
	pos, n := headerBytes, headerBytes
	for pos < len(b) && n < cell {
		if isNum(b[pos]) {
			for pos < len(b) && isNum(b[pos]) {
				pos++
			}
		} else {
			pos++
		}
		n++
	}
	return pos
}

func cellCount(b []byte, headerBytes int) int {
	n := 0
	for cellCut(b, n+1, headerBytes) > cellCut(b, n, headerBytes) {
		n++
	}
	return n
}

// GzipStream (native flavour): the buffer's bytes inside a real gzip container made of stored blocks. A truncated
// buffer (Limit >= 0) becomes a container that ends after exactly Limit bytes of content, without final block or
// trailer - what a download interrupted at that point leaves behind.
func GzipStream(b *Buf) io.Reader {
	var out bytes.Buffer
	w, _ := gzip.NewWriterLevel(&out, gzip.NoCompression)
	w.Write(b.B)
	w.Close()
	if b.Limit < 0 || b.Limit >= len(b.B) {
		return bytes.NewReader(out.Bytes())
	}
	const gzipHeader, storedHeader = 10, 5
	n := gzipHeader + storedHeader + b.Limit
	if len(b.B) > 65535 || n > out.Len() {
		panic("zzverif.GzipStream: buffer too large for a single stored block")
	}
	return bytes.NewReader(out.Bytes()[:n])
}
