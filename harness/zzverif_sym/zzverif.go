// Package zzverif is the harness API. This flavour is the one the symbolic engine loads: every
// function below is intercepted by name by the engine (gosym); the bodies are never executed.
package zzverif

func Int(name string, lo, hi int) int      { return lo }
func AnyInt(name string) int               { return 0 }
func Choose(name string, n int) int        { return 0 }
func Concrete(v int) int                   { return v }
func Bool(name string) bool                { return false }
func Byte(name string) byte                { return 0 }
func Bytes(name string, n int) []byte      { return make([]byte, n) }
func Float64(name string) float64          { return 0 }
func Float32(name string) float32          { return 0 }
func AnyFloat64(name string) float64       { return 0 }
func Assume(cond bool)                     {}
func Assert(cond bool, label string)       {}
func AssertNear(a, b float64, label string) {}
func Reach(label string)                   {}
func Observe(label string, v any)          {}
func Bound(name string) int                { return 0 }
func IsMath() bool                         { return false }
func Symbolic() bool                       { return true }
func Note(s string)                        {}
func WithSpare[T any](name string, s []T, maxSpare int) []T { return s }

func Or(a, b bool) bool                        { return a || b }
func And(a, b bool) bool                       { return a && b }
func Implies(a, b bool) bool                   { return !a || b }
func IteInt(c bool, a, b int) int              { return a }
func IteF(c bool, a, b float64) float64        { return a }
func IteU64(c bool, a, b uint64) uint64        { return a }
func HalfToFloat64(h uint16) float64            { return 0 }

func JSONMsg(v any) []byte                    { return nil }

func cellCut(b []byte, cell, headerBytes int) int { return cell }
func cellCount(b []byte, headerBytes int) int { return len(b) }

// GzipStream presents the buffer's bytes (up to its Limit) as the content of a gzip stream. The engine models
// compress/gzip as the identity, so here the buffer itself is the stream; the native flavour wraps the bytes in
// a real gzip container (cut short without its trailer when the buffer is truncated).
func GzipStream(b *Buf) *Buf { return b }
