package main

// Type-directed models of encoding/binary.Read/Write/Size (the documented fixed-size encoding).

import (
	"go/types"
	"strings"

	"golang.org/x/tools/go/ssa"
)

func (it *Interp) isBigEndian(order Value) bool {
	ifc := order.(Iface)
	if ifc.T == nil {
		it.runtimePanic("nil ByteOrder")
	}
	return strings.Contains(ifc.T.String(), "bigEndian")
}

func (it *Interp) scalarBytes(t *Term, big bool) []*Term {
	if it.mode != Bits {
		it.outside("binary encoding in math mode")
	}
	if t.S.K == SBool {
		return []*Term{it.tb.Ite(t, it.tb.BVC(8, 1), it.tb.BVC(8, 0))}
	}
	if t.S.K == SFP {
		t = it.tb.FloatBits(t)
	}
	n := t.S.W / 8
	out := make([]*Term, n)
	for k := 0; k < n; k++ {
		b := it.tb.Extract(t, 8*k+7, 8*k)
		if big {
			out[n-1-k] = b
		} else {
			out[k] = b
		}
	}
	return out
}

func (it *Interp) encodeValue(v Value, t types.Type, big bool, out *[]*Term) {
	switch u := t.Underlying().(type) {
	case *types.Basic:
		x, ok := v.(*Term)
		if !ok {
			it.outside("binary.Write of unsupported basic %s", t)
		}
		*out = append(*out, it.scalarBytes(x, big)...)
	case *types.Array:
		a := v.(*ArrayV)
		for _, e := range a.E {
			it.encodeValue(e, u.Elem(), big, out)
		}
	case *types.Slice:
		s := v.(SliceV)
		for i := 0; i < s.Len; i++ {
			it.encodeValue(it.sliceGet(s, i), u.Elem(), big, out)
		}
	case *types.Struct:
		sv := v.(*StructV)
		for i := 0; i < u.NumFields(); i++ {
			if u.Field(i).Name() == "_" {
				n := int(it.sizes.Sizeof(u.Field(i).Type()))
				for k := 0; k < n; k++ {
					*out = append(*out, it.tb.BVC(8, 0))
				}
				continue
			}
			it.encodeValue(sv.F[i], u.Field(i).Type(), big, out)
		}
	case *types.Pointer:
		p := v.(Ptr)
		it.encodeValue(it.load(p), u.Elem(), big, out)
	default:
		it.outside("binary.Write of unsupported type %s", t)
	}
}

// fixedSize returns the encoded size of a value of type t (slices need the value).
func (it *Interp) fixedSize(v Value, t types.Type) int {
	switch u := t.Underlying().(type) {
	case *types.Basic:
		switch u.Kind() {
		case types.Bool, types.Int8, types.Uint8:
			return 1
		case types.Int16, types.Uint16:
			return 2
		case types.Int32, types.Uint32, types.Float32:
			return 4
		case types.Int64, types.Uint64, types.Float64:
			return 8
		}
		return -1
	case *types.Array:
		e := it.fixedSize(nil, u.Elem())
		if e < 0 {
			return -1
		}
		return e * int(u.Len())
	case *types.Slice:
		e := it.fixedSize(nil, u.Elem())
		if e < 0 || v == nil {
			return -1
		}
		return e * v.(SliceV).Len
	case *types.Struct:
		n := 0
		for i := 0; i < u.NumFields(); i++ {
			e := it.fixedSize(nil, u.Field(i).Type())
			if e < 0 {
				return -1
			}
			n += e
		}
		return n
	case *types.Pointer:
		return it.fixedSize(nil, u.Elem())
	}
	return -1
}

func (it *Interp) decodeValue(t types.Type, bytes []*Term, pos *int, big bool) Value {
	switch u := t.Underlying().(type) {
	case *types.Basic:
		n := it.fixedSize(nil, t)
		bs := bytes[*pos : *pos+n]
		*pos += n
		if u.Kind() == types.Bool {
			return it.tb.Not(it.tb.Eq(bs[0], it.tb.BVC(8, 0)))
		}
		var x *Term
		for k := 0; k < n; k++ {
			var b *Term
			if big {
				b = bs[k]
			} else {
				b = bs[n-1-k]
			}
			if x == nil {
				x = b
			} else {
				x = it.tb.Concat(x, b)
			}
		}
		if u.Info()&types.IsFloat != 0 {
			return it.tb.FloatFromBits(x)
		}
		return x
	case *types.Array:
		a := &ArrayV{E: make([]Value, u.Len())}
		for i := range a.E {
			a.E[i] = it.decodeValue(u.Elem(), bytes, pos, big)
		}
		return a
	case *types.Struct:
		sv := &StructV{F: make([]Value, u.NumFields())}
		for i := range sv.F {
			if u.Field(i).Name() == "_" {
				*pos += int(it.sizes.Sizeof(u.Field(i).Type()))
				sv.F[i] = it.zero(u.Field(i).Type())
				continue
			}
			sv.F[i] = it.decodeValue(u.Field(i).Type(), bytes, pos, big)
		}
		return sv
	}
	it.outside("binary.Read of unsupported type %s", t)
	return nil
}

func (it *Interp) byteSliceOf(bs []*Term) SliceV {
	sl := it.makeSlice(types.Typ[types.Byte], len(bs), len(bs))
	for i, b := range bs {
		setChild(sl.Arr.Obj.V, i, b)
	}
	return sl
}

func (it *Interp) setupCodecIntrinsics() {
	T := it.intrTab
	T["encoding/binary.Write"] = func(it *Interp, fn *ssa.Function, a []Value) Value {
		big := it.isBigEndian(a[1])
		data := a[2].(Iface)
		if data.T == nil {
			return it.newError("binary.Write: some values are not fixed-sized in type <nil>")
		}
		if it.fixedSize(data.V, data.T) < 0 {
			return it.newError("binary.Write: some values are not fixed-sized in type " + data.T.String())
		}
		var out []*Term
		it.encodeValue(data.V, data.T, big, &out)
		w := a[0].(Iface)
		if w.T == nil {
			it.runtimePanic("invalid memory address or nil pointer dereference (nil io.Writer)")
		}
		m := it.findMethod(w.T, nil, "Write")
		r := it.call(m, []Value{w.V, it.byteSliceOf(out)}, nil).(Tuple)
		return r[1]
	}
	T["encoding/binary.Size"] = func(it *Interp, fn *ssa.Function, a []Value) Value {
		data := a[0].(Iface)
		if data.T == nil {
			return it.mkInt(-1)
		}
		return it.mkInt(it.fixedSize(data.V, data.T))
	}
	T["encoding/binary.Read"] = func(it *Interp, fn *ssa.Function, a []Value) Value {
		big := it.isBigEndian(a[1])
		data := a[2].(Iface)
		if data.T == nil {
			return it.newError("binary.Read: invalid type <nil>")
		}
		var n int
		var elemT types.Type
		isSlice := false
		switch u := data.T.Underlying().(type) {
		case *types.Pointer:
			elemT = u.Elem()
			if st, ok := elemT.Underlying().(*types.Slice); ok {
				// pointer to slice: fill the slice it points to
				sl := it.load(data.V.(Ptr)).(SliceV)
				data = Iface{T: elemT, V: sl}
				elemT = st.Elem()
				isSlice = true
				n = it.fixedSize(sl, data.T)
			} else {
				n = it.fixedSize(nil, elemT)
			}
		case *types.Slice:
			elemT = u.Elem()
			isSlice = true
			n = it.fixedSize(data.V, data.T)
		default:
			return it.newError("binary.Read: invalid type " + data.T.String())
		}
		if n < 0 {
			return it.newError("binary.Read: invalid type " + data.T.String())
		}
		buf := it.makeSlice(types.Typ[types.Byte], n, n)
		readFull := it.prog.ImportedPackage("io").Func("ReadFull")
		r := it.call(readFull, []Value{a[0], buf}, nil).(Tuple)
		if ifc := r[1].(Iface); ifc.T != nil {
			return ifc
		}
		bs := make([]*Term, n)
		for i := range bs {
			bs[i] = it.sliceGet(buf, i).(*Term)
		}
		pos := 0
		if isSlice {
			s := data.V.(SliceV)
			for i := 0; i < s.Len; i++ {
				it.store(it.sliceElemPtr(s, i), it.decodeValue(elemT, bs, &pos, big))
			}
		} else {
			it.store(data.V.(Ptr), it.decodeValue(elemT, bs, &pos, big))
		}
		return Iface{}
	}
}
