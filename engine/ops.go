package main

import (
	"fmt"
	"go/token"
	"go/types"
	"unicode/utf8"

	"golang.org/x/tools/go/ssa"
)

// ---------- memory ----------

// loadRaw returns the (uncopied) value at p; ok=false if a symbolic index could not be merged.
func (it *Interp) loadRaw(p Ptr) (Value, bool) {
	return it.loadPath(p.Obj.V, p.Path)
}

func (it *Interp) loadPath(v Value, path []PathElem) (Value, bool) {
	if len(path) == 0 {
		return v, true
	}
	e := path[0]
	if e.Sym == nil {
		return it.loadPath(childOf(v, e.I), path[1:])
	}
	var res Value
	klo, khi := it.symRange(e)
	for k := khi; k >= klo; k-- {
		c, ok := it.loadPath(childOf(v, e.Off+k), path[1:])
		if !ok {
			return nil, false
		}
		if res == nil {
			res = c
			continue
		}
		res, ok = it.iteVal(it.tb.Eq(e.Sym, it.sameSortInt(e.Sym, k)), c, res)
		if !ok {
			return nil, false
		}
	}
	return res, true
}

// symRange restricts the candidate cells of a symbolic index using the interval domain.
func (it *Interp) symRange(e PathElem) (int, int) {
	klo, khi := 0, e.N-1
	if lo, hi, ok := it.bounds(e.Sym); ok {
		if int(lo) > klo {
			klo = int(lo)
		}
		if int(hi) < khi {
			khi = int(hi)
		}
	}
	if klo > khi { // contradictory information: keep the full range (the path is infeasible anyway)
		return 0, e.N - 1
	}
	return klo, khi
}

func (it *Interp) sameSortInt(like *Term, k int) *Term {
	if like.S.K == SInt {
		return it.tb.IntC(int64(k))
	}
	return it.tb.BVC(like.S.W, uint64(k))
}

// concretizePath replaces symbolic indices in p by concrete ones (forking).
func (it *Interp) concretizePath(p Ptr) Ptr {
	np := Ptr{Obj: p.Obj, Path: make([]PathElem, len(p.Path))}
	for i, e := range p.Path {
		if e.Sym != nil {
			k := int(it.concretize(e.Sym))
			np.Path[i] = PathElem{I: e.Off + k}
		} else {
			np.Path[i] = e
		}
	}
	return np
}

func (it *Interp) load(p Ptr) Value {
	if p.IsNil() {
		it.runtimePanic("invalid memory address or nil pointer dereference")
	}
	it.raceAccess(p, false)
	v, ok := it.loadRaw(p)
	if !ok {
		v, _ = it.loadRaw(it.concretizePath(p))
	}
	return copyVal(v)
}

func (it *Interp) iteVal(c *Term, a, b Value) (Value, bool) {
	if c.IsConst() {
		if c.B {
			return a, true
		}
		return b, true
	}
	switch x := a.(type) {
	case *Term:
		y, ok := b.(*Term)
		if !ok || x.S != y.S {
			return nil, false
		}
		return it.tb.Ite(c, x, y), true
	case *StructV:
		y, ok := b.(*StructV)
		if !ok || len(x.F) != len(y.F) {
			return nil, false
		}
		n := &StructV{F: make([]Value, len(x.F))}
		for i := range x.F {
			var ok2 bool
			n.F[i], ok2 = it.iteVal(c, x.F[i], y.F[i])
			if !ok2 {
				return nil, false
			}
		}
		return n, true
	case *ArrayV:
		y, ok := b.(*ArrayV)
		if !ok || len(x.E) != len(y.E) {
			return nil, false
		}
		n := &ArrayV{E: make([]Value, len(x.E))}
		for i := range x.E {
			var ok2 bool
			n.E[i], ok2 = it.iteVal(c, x.E[i], y.E[i])
			if !ok2 {
				return nil, false
			}
		}
		return n, true
	}
	if identical(a, b) {
		return a, true
	}
	return nil, false
}

func (it *Interp) store(p Ptr, v Value) {
	if p.IsNil() {
		it.runtimePanic("invalid memory address or nil pointer dereference")
	}
	it.raceAccess(p, true)
	v = copyVal(v)
	if len(p.Path) == 0 {
		p.Obj.V = v
		return
	}
	if !it.storePath(p.Obj.V, p.Path, v, it.tb.True) {
		cp := it.concretizePath(p)
		it.storePath(cp.Obj.V, cp.Path, v, it.tb.True)
	}
}

// storePath writes v at path inside container under guard.
func (it *Interp) storePath(container Value, path []PathElem, v Value, guard *Term) bool {
	e := path[0]
	if e.Sym == nil {
		if len(path) == 1 {
			if guard == it.tb.True {
				setChild(container, e.I, v)
				return true
			}
			nv, ok := it.iteVal(guard, v, childOf(container, e.I))
			if !ok {
				return false
			}
			setChild(container, e.I, nv)
			return true
		}
		return it.storePath(childOf(container, e.I), path[1:], v, guard)
	}
	// dry run for mergeability is folded into the writes: for scalars/aggregates of scalars it always succeeds
	klo, khi := it.symRange(e)
	for k := klo; k <= khi; k++ {
		g := it.tb.And(guard, it.tb.Eq(e.Sym, it.sameSortInt(e.Sym, k)))
		if len(path) == 1 {
			nv, ok := it.iteVal(g, v, childOf(container, e.Off+k))
			if !ok {
				return false
			}
			setChild(container, e.Off+k, nv)
		} else if !it.storePath(childOf(container, e.Off+k), path[1:], v, g) {
			return false
		}
	}
	return true
}

func (it *Interp) makeSlice(et types.Type, n, c int) SliceV {
	av := &ArrayV{E: make([]Value, c)}
	for i := range av.E {
		av.E[i] = it.zero(et)
	}
	o := it.newObject(av, types.NewArray(et, int64(c)))
	return SliceV{Arr: Ptr{Obj: o}, Off: 0, Len: n, Cap: c}
}

func (it *Interp) sliceElemPtr(s SliceV, i int) Ptr {
	return s.Arr.child(PathElem{I: s.Off + i})
}

func (it *Interp) sliceGet(s SliceV, i int) Value {
	return it.load(it.sliceElemPtr(s, i))
}

// ---------- unary / binary ----------

func (it *Interp) unop(fr *Frame, x *ssa.UnOp) Value {
	v := it.get(fr, x.X)
	switch x.Op {
	case token.MUL:
		return it.load(v.(Ptr))
	case token.SUB:
		return it.tb.Neg(v.(*Term))
	case token.NOT:
		return it.tb.Not(v.(*Term))
	case token.XOR:
		return it.tb.BitNot(v.(*Term))
	case token.ARROW:
		val, ok := it.chanRecv(v.(*ChanObj), x.Type(), x.CommaOk)
		if x.CommaOk {
			return Tuple{val, it.tb.BoolC(ok)}
		}
		return val
	}
	it.outside("unsupported unary operator %s", x.Op)
	return nil
}

// valEq is Go's == on arbitrary comparable values, as a Bool term.
func (it *Interp) valEq(a, b Value) *Term {
	switch x := a.(type) {
	case *Term:
		return it.tb.Eq(x, b.(*Term))
	case string:
		switch y := b.(type) {
		case string:
			return it.tb.BoolC(x == y)
		case *SymStr:
			return it.symStrEq(strToSym(it, x), y)
		}
	case *SymStr:
		switch y := b.(type) {
		case string:
			return it.symStrEq(x, strToSym(it, y))
		case *SymStr:
			return it.symStrEq(x, y)
		}
	case *StructV:
		y := b.(*StructV)
		r := it.tb.True
		for i := range x.F {
			r = it.tb.And(r, it.valEq(x.F[i], y.F[i]))
		}
		return r
	case *ArrayV:
		y := b.(*ArrayV)
		r := it.tb.True
		for i := range x.E {
			r = it.tb.And(r, it.valEq(x.E[i], y.E[i]))
		}
		return r
	case Iface:
		y, ok := b.(Iface)
		if !ok {
			return it.tb.False
		}
		if x.T == nil || y.T == nil {
			return it.tb.BoolC(x.T == nil && y.T == nil)
		}
		if !types.Identical(x.T, y.T) {
			return it.tb.False
		}
		return it.valEq(x.V, y.V)
	case Ptr:
		y, ok := b.(Ptr)
		if !ok {
			return it.tb.False
		}
		if x.Obj != y.Obj || len(x.Path) != len(y.Path) {
			return it.tb.False
		}
		r := it.tb.True
		for i := range x.Path {
			ex, ey := x.Path[i], y.Path[i]
			if ex.Sym == nil && ey.Sym == nil {
				if ex.I != ey.I {
					return it.tb.False
				}
				continue
			}
			it.outside("comparison of pointers with symbolic indices")
		}
		return r
	case SliceV: // only comparison with nil is legal
		return it.tb.BoolC(x.Nil && b.(SliceV).Nil)
	case MapV:
		return it.tb.BoolC(x.M == b.(MapV).M)
	case *Closure:
		y, _ := b.(*Closure)
		return it.tb.BoolC(x == nil && y == nil)
	case *ChanObj:
		return it.tb.BoolC(x == b.(*ChanObj))
	case nil:
		return it.tb.BoolC(b == nil)
	}
	it.outside("unsupported equality on %T", a)
	return nil
}

// tokenAlphabet: bytes that may occur inside the decimal text of a number.
func tokenAlphabet(b byte) bool {
	return (b >= '0' && b <= '9') || b == '-' || b == '+' || b == '.' || b == 'e' || b == 'E' || b == 'I' || b == 'n' || b == 'f' || b == 'N' || b == 'a'
}

func (it *Interp) binop(op token.Token, a, b Value, ta, tbt types.Type) Value {
	// a numeric token cell compared with a byte: a token never equals a byte outside the number alphabet
	if ta0, ok := a.(*TokByte); ok {
		_ = ta0
		if y, ok := b.(*Term); ok && y.IsConst() && !tokenAlphabet(byte(y.U)) && (op == token.EQL || op == token.NEQ) {
			return it.tb.BoolC(op == token.NEQ)
		}
		it.outside("operation %s on a numeric token cell", op)
	}
	if _, ok := b.(*TokByte); ok {
		if x, ok := a.(*Term); ok && x.IsConst() && !tokenAlphabet(byte(x.U)) && (op == token.EQL || op == token.NEQ) {
			return it.tb.BoolC(op == token.NEQ)
		}
		it.outside("operation %s on a numeric token cell", op)
	}
	switch x := a.(type) {
	case *Term:
		y := b.(*Term)
		signed := isSigned(ta)
		switch op {
		case token.EQL:
			return it.tb.Eq(x, y)
		case token.NEQ:
			return it.tb.Not(it.tb.Eq(x, y))
		case token.LSS, token.LEQ, token.GTR, token.GEQ:
			return it.tb.Cmp(op, x, y, signed)
		case token.QUO, token.REM:
			if isInteger(ta) || x.S.K == SInt {
				if it.decide(it.tb.Eq(y, it.tb.Zero(y.S))) {
					it.runtimePanic("integer divide by zero")
				}
			} else if x.S.K == SReal {
				if it.cfg.NaNPoison && it.touchesPoison(y) {
					return it.newPoison()
				}
				if it.decide(it.tb.Eq(y, it.tb.Zero(y.S))) {
					if it.cfg.NaNPoison {
						// the quotient is NaN/Inf natively. With nan_poison the value becomes a poison variable:
						// computing with it is allowed, but the path is abandoned as outside the model as soon as
						// a branch or an assertion depends on it (so nothing is ever concluded from its value).
						return it.newPoison()
					}
					// Inf/NaN is not representable over the reals. The path stops as outside the model, but the
					// witness (an input that makes the divisor zero) is replayed against the real code: if a
					// harness assertion fails there (a NaN where the property promises a value), that is a
					// violation like any other; if not, the event only counts as outside-model.
					it.rep.addViolation(it, "outside-model: division by zero (NaN or Inf natively)", "the divisor can be zero in "+it.where(), nil)
					it.outside("real-mode division by zero (Inf/NaN is not representable)")
				}
			}
			return it.tb.Arith(op, x, y, signed)
		case token.SHL, token.SHR:
			if x.S.K == SInt {
				// math mode: only constant shifts
				if !y.IsConst() {
					it.outside("symbolic shift amount in math mode")
				}
				k := uint(y.SInt64())
				if x.IsConst() {
					return it.tb.Arith(op, x, it.tb.IntC(int64(k)), signed)
				}
				p := it.tb.IntC(int64(1) << k)
				if op == token.SHL {
					return it.tb.Arith(token.MUL, x, p, true)
				}
				// floor division for arithmetic shift right
				return it.tb.mk("div", IntSort, "", x, p)
			}
			if isSigned(tbt) && !y.IsConst() {
				if it.decide(it.tb.Cmp(token.LSS, y, it.tb.Zero(y.S), true)) {
					it.runtimePanic("negative shift amount")
				}
			}
			return it.tb.Arith(op, x, y, signed)
		case token.AND, token.OR, token.XOR, token.AND_NOT:
			if x.S.K == SInt && !(x.IsConst() && y.IsConst()) {
				it.outside("bitwise operator %s on symbolic integers in math mode", op)
			}
			if x.S.K == SBool {
				switch op {
				case token.AND:
					return it.tb.And(x, y)
				case token.OR:
					return it.tb.Or(x, y)
				}
			}
			return it.tb.Arith(op, x, y, signed)
		}
		return it.tb.Arith(op, x, y, signed)
	case string, *SymStr:
		switch op {
		case token.ADD:
			return it.strConcat(a, b)
		case token.EQL:
			return it.valEq(a, b)
		case token.NEQ:
			return it.tb.Not(it.valEq(a, b))
		}
		xs, ok1 := a.(string)
		ys, ok2 := b.(string)
		if !ok1 || !ok2 {
			it.outside("ordering comparison on symbolic strings")
		}
		switch op {
		case token.LSS:
			return it.tb.BoolC(xs < ys)
		case token.LEQ:
			return it.tb.BoolC(xs <= ys)
		case token.GTR:
			return it.tb.BoolC(xs > ys)
		case token.GEQ:
			return it.tb.BoolC(xs >= ys)
		}
	}
	switch op {
	case token.EQL:
		return it.valEq(a, b)
	case token.NEQ:
		return it.tb.Not(it.valEq(a, b))
	}
	it.outside("unsupported binary operator %s on %T", op, a)
	return nil
}

// ---------- conversions ----------

func (it *Interp) convert(v Value, from, to types.Type) Value {
	fu, tu := from.Underlying(), to.Underlying()
	switch t := tu.(type) {
	case *types.Basic:
		if t.Info()&types.IsString != 0 {
			switch f := fu.(type) {
			case *types.Basic:
				if f.Info()&types.IsString != 0 {
					return v
				}
				if f.Info()&types.IsInteger != 0 {
					x := v.(*Term)
					if !x.IsConst() {
						it.outside("string(symbolic rune)")
					}
					return string(rune(x.SInt64()))
				}
			case *types.Slice:
				return it.bytesToString(v.(SliceV), f)
			}
			it.outside("unsupported conversion to string from %s", from)
		}
		if t.Kind() == types.UnsafePointer {
			return v
		}
		x, ok := v.(*Term)
		if !ok {
			if _, isP := v.(Ptr); isP {
				it.outside("conversion of pointer to %s", to)
			}
			it.outside("unsupported conversion %s -> %s", from, to)
		}
		switch {
		case t.Info()&types.IsInteger != 0:
			if isFloat(from) {
				if it.mode == Math {
					return it.tb.FloatToInt(x, true, 64)
				}
				return it.tb.FloatToInt(x, isSigned(to), intWidth(to))
			}
			if it.mode == Math {
				if x.IsConst() {
					return it.tb.IntC(wrapInt(int64(x.U), to))
				}
				return x
			}
			w := intWidth(to)
			if w > x.S.W && x.Op == "extract" && x.Args[0].S.W == w {
				// widening a value that was narrowed before: if the original provably fits the narrow type the
				// round trip is the identity (index fields written as int32/uint32 and read back as int)
				var hi, lo int
				fmt.Sscanf(x.Name, "%d %d", &hi, &lo)
				if lo == 0 && hi == x.S.W-1 {
					if l, h, ok := it.bounds(x.Args[0]); ok {
						nb := uint(x.S.W)
						if isSigned(from) && l >= -(1<<(nb-1)) && h < 1<<(nb-1) {
							return x.Args[0]
						}
						if !isSigned(from) && l >= 0 && h < 1<<nb {
							return x.Args[0]
						}
					}
				}
			}
			return it.tb.ConvInt(x, isSigned(from), w)
		case t.Info()&types.IsFloat != 0:
			w := 64
			if t.Kind() == types.Float32 {
				w = 32
			}
			if isFloat(from) {
				return it.tb.FloatToFloat(x, w)
			}
			return it.tb.IntToFloat(x, isSigned(from), w, it.mode == Math)
		case t.Info()&types.IsBoolean != 0:
			return x
		}
	case *types.Slice:
		if isString(from) {
			return it.stringToBytes(v, t)
		}
		return v
	case *types.Pointer:
		return v
	}
	it.outside("unsupported conversion %s -> %s", from, to)
	return nil
}

func wrapInt(v int64, t types.Type) int64 {
	switch t.Underlying().(*types.Basic).Kind() {
	case types.Int8:
		return int64(int8(v))
	case types.Uint8:
		return int64(uint8(v))
	case types.Int16:
		return int64(int16(v))
	case types.Uint16:
		return int64(uint16(v))
	case types.Int32:
		return int64(int32(v))
	case types.Uint32:
		return int64(uint32(v))
	}
	return v
}

func (it *Interp) byteTerm(b byte) *Term {
	if it.mode == Math {
		return it.tb.IntC(int64(b))
	}
	return it.tb.BVC(8, uint64(b))
}

func (it *Interp) stringToBytes(v Value, st *types.Slice) Value {
	if isRuneSlice(st) {
		s, ok := v.(string)
		if !ok {
			it.outside("[]rune(symbolic string)")
		}
		rs := []rune(s)
		sl := it.makeSlice(st.Elem(), len(rs), len(rs))
		for i, r := range rs {
			setChild(sl.Arr.Obj.V, i, it.intC(int64(r), st.Elem()))
		}
		return sl
	}
	switch s := v.(type) {
	case string:
		sl := it.makeSlice(st.Elem(), len(s), len(s))
		for i := 0; i < len(s); i++ {
			setChild(sl.Arr.Obj.V, i, it.byteTerm(s[i]))
		}
		return sl
	case *SymStr:
		sl := it.makeSlice(st.Elem(), len(s.C), len(s.C))
		for i, c := range s.C {
			setChild(sl.Arr.Obj.V, i, it.cellToValue(c))
		}
		return sl
	}
	it.outside("stringToBytes %T", v)
	return nil
}

func isRuneSlice(st *types.Slice) bool {
	b, ok := st.Elem().Underlying().(*types.Basic)
	return ok && (b.Kind() == types.Int32)
}

func (it *Interp) bytesToString(s SliceV, st *types.Slice) Value {
	if isRuneSlice(st) {
		rs := make([]rune, s.Len)
		for i := 0; i < s.Len; i++ {
			t := it.sliceGet(s, i).(*Term)
			if !t.IsConst() {
				it.outside("string([]rune) with symbolic runes")
			}
			rs[i] = rune(t.SInt64())
		}
		return string(rs)
	}
	cells := make([]Cell, s.Len)
	conc := true
	for i := 0; i < s.Len; i++ {
		cells[i] = it.valueToCell(it.sliceGet(s, i))
		if cells[i].Tok != "" || !cells[i].B.IsConst() {
			conc = false
		}
	}
	if conc {
		bs := make([]byte, len(cells))
		for i, c := range cells {
			bs[i] = byte(c.B.U)
		}
		return string(bs)
	}
	return &SymStr{C: cells}
}

// ---------- indexing ----------

func (it *Interp) normIndex(idx *Term, t types.Type) *Term {
	if idx.S.K == SInt {
		return idx
	}
	return it.tb.ConvInt(idx, isSigned(t), 64)
}

func (it *Interp) boundsCheck(idx *Term, n int, what string) {
	if idx.IsConst() {
		i := idx.SInt64()
		if i < 0 || i >= int64(n) {
			it.runtimePanic(fmt.Sprintf("%s out of range [%d] with length %d", what, i, n))
		}
		return
	}
	in := it.tb.And(it.tb.Cmp(token.GEQ, idx, it.sameSortInt(idx, 0), true), it.tb.Cmp(token.LSS, idx, it.sameSortInt(idx, n), true))
	if !it.decide(in) {
		it.runtimePanic(fmt.Sprintf("%s out of range [symbolic] with length %d", what, n))
	}
}

func (it *Interp) indexAddr(x Value, idx *Term, it_ types.Type) Value {
	idx = it.normIndex(idx, it_)
	switch b := x.(type) {
	case SliceV:
		it.boundsCheck(idx, b.Len, "index")
		if idx.IsConst() {
			return b.Arr.child(PathElem{I: b.Off + int(idx.SInt64())})
		}
		return b.Arr.child(PathElem{Sym: idx, Off: b.Off, N: b.Len})
	case Ptr:
		if b.IsNil() {
			it.runtimePanic("invalid memory address or nil pointer dereference")
		}
		n := it.arrayLen(b)
		it.boundsCheck(idx, n, "index")
		if idx.IsConst() {
			return b.child(PathElem{I: int(idx.SInt64())})
		}
		return b.child(PathElem{Sym: idx, Off: 0, N: n})
	}
	panic(fmt.Sprintf("internal: IndexAddr on %T", x))
}

func (it *Interp) indexValue(x Value, idx *Term, xt, it_ types.Type) Value {
	idx = it.normIndex(idx, it_)
	switch a := x.(type) {
	case *ArrayV:
		it.boundsCheck(idx, len(a.E), "index")
		if idx.IsConst() {
			return a.E[idx.SInt64()]
		}
		v, ok := it.loadPath(a, []PathElem{{Sym: idx, Off: 0, N: len(a.E)}})
		if !ok {
			k := it.concretize(idx)
			return a.E[k]
		}
		return v
	case string:
		it.boundsCheck(idx, len(a), "index")
		if idx.IsConst() {
			return it.byteTerm(a[idx.SInt64()])
		}
		k := it.concretize(idx)
		return it.byteTerm(a[k])
	case *SymStr:
		it.boundsCheck(idx, len(a.C), "index")
		k := it.concretize(idx)
		return it.cellToValue(a.C[k])
	}
	panic(fmt.Sprintf("internal: Index on %T", x))
}

func (it *Interp) sliceOp(fr *Frame, x *ssa.Slice) Value {
	base := it.get(fr, x.X)
	geti := func(v ssa.Value, def int) int {
		if v == nil {
			return def
		}
		t := it.normIndex(it.get(fr, v).(*Term), v.Type())
		return int(it.concretize(t))
	}
	switch b := base.(type) {
	case string:
		lo := geti(x.Low, 0)
		hi := geti(x.High, len(b))
		if lo < 0 || hi > len(b) || lo > hi {
			it.runtimePanic(fmt.Sprintf("slice bounds out of range [%d:%d] with length %d", lo, hi, len(b)))
		}
		return b[lo:hi]
	case *SymStr:
		lo := geti(x.Low, 0)
		hi := geti(x.High, len(b.C))
		if lo < 0 || hi > len(b.C) || lo > hi {
			it.runtimePanic(fmt.Sprintf("slice bounds out of range [%d:%d] with length %d", lo, hi, len(b.C)))
		}
		return it.normStr(&SymStr{C: b.C[lo:hi]})
	case SliceV:
		lo := geti(x.Low, 0)
		hi := geti(x.High, b.Len)
		mx := geti(x.Max, b.Cap)
		if lo < 0 || hi < lo || mx < hi || mx > b.Cap {
			it.runtimePanic(fmt.Sprintf("slice bounds out of range [%d:%d:%d] with capacity %d", lo, hi, mx, b.Cap))
		}
		if b.Nil {
			return b
		}
		return SliceV{Arr: b.Arr, Off: b.Off + lo, Len: hi - lo, Cap: mx - lo}
	case Ptr:
		if b.IsNil() {
			it.runtimePanic("invalid memory address or nil pointer dereference")
		}
		n := it.arrayLen(b)
		lo := geti(x.Low, 0)
		hi := geti(x.High, n)
		mx := geti(x.Max, n)
		if lo < 0 || hi < lo || mx < hi || mx > n {
			it.runtimePanic(fmt.Sprintf("slice bounds out of range [%d:%d:%d] with capacity %d", lo, hi, mx, n))
		}
		return SliceV{Arr: b, Off: lo, Len: hi - lo, Cap: mx - lo}
	}
	panic(fmt.Sprintf("internal: Slice on %T", base))
}

// ---------- maps ----------

// findKey returns the index of key k in m (forking on symbolic comparisons) or -1.
func (it *Interp) findKey(m *MapObj, k Value) int {
	for i := range m.K {
		e := it.valEq(m.K[i], k)
		if it.decide(e) {
			return i
		}
	}
	return -1
}

func (it *Interp) mapUpdate(m *MapObj, k, v Value) {
	if i := it.findKey(m, k); i >= 0 {
		m.V[i] = v
		return
	}
	m.K = append(m.K, copyVal(k))
	m.V = append(m.V, v)
}

func (it *Interp) mapDelete(m *MapObj, k Value) {
	if i := it.findKey(m, k); i >= 0 {
		m.K = append(append([]Value{}, m.K[:i]...), m.K[i+1:]...)
		m.V = append(append([]Value{}, m.V[:i]...), m.V[i+1:]...)
	}
}

func (it *Interp) lookup(fr *Frame, x *ssa.Lookup) Value {
	c := it.get(fr, x.X)
	switch m := c.(type) {
	case MapV:
		var val Value
		found := false
		if m.M != nil {
			if i := it.findKey(m.M, it.get(fr, x.Index)); i >= 0 {
				val = copyVal(m.M.V[i])
				found = true
			}
		}
		if !found {
			val = it.zero(x.X.Type().Underlying().(*types.Map).Elem())
		}
		if x.CommaOk {
			return Tuple{val, it.tb.BoolC(found)}
		}
		return val
	case string, *SymStr:
		return it.indexValue(c, it.get(fr, x.Index).(*Term), x.X.Type(), x.Index.Type())
	}
	panic(fmt.Sprintf("internal: Lookup on %T", c))
}

func (it *Interp) makeRange(x Value) Value {
	switch m := x.(type) {
	case MapV:
		mi := &MapIter{}
		if m.M != nil {
			n := len(m.M.K)
			mi.Keys = append([]Value{}, m.M.K...)
			mi.Vals = append([]Value{}, m.M.V...)
			mi.M = m.M
			mi.Order = it.mapOrder(n)
		}
		return mi
	case string:
		return &MapIter{IsStr: true, Str: m}
	}
	it.outside("range over %T", x)
	return nil
}

// mapOrder picks the iteration order of a map with n entries according to the harness policy.
func (it *Interp) mapOrder(n int) []int {
	ord := make([]int, n)
	for i := range ord {
		ord[i] = i
	}
	if n <= 1 {
		return ord
	}
	it.rep.MapRanges++
	switch it.cfg.MapOrder {
	case "all":
		// choose a permutation: insertion, reverse, and rotations (two entries: insertion and reverse)
		nch := n + 1
		if n == 2 {
			nch = 2
		}
		k := it.choose(nch)
		switch {
		case k == 0:
		case k == 1:
			for i := range ord {
				ord[i] = n - 1 - i
			}
		default:
			r := k - 1
			if r >= n {
				r = n - 1
			}
			for i := range ord {
				ord[i] = (i + r) % n
			}
		}
	default: // two-global
		if it.mapOrderRev {
			for i := range ord {
				ord[i] = n - 1 - i
			}
		}
	}
	return ord
}

func (it *Interp) next(mi *MapIter, x *ssa.Next) Value {
	if mi.IsStr {
		if mi.Pos >= len(mi.Str) {
			return Tuple{it.tb.False, it.mkInt(0), it.intC(0, types.Typ[types.Int32])}
		}
		r, sz := utf8.DecodeRuneInString(mi.Str[mi.Pos:])
		p := mi.Pos
		mi.Pos += sz
		return Tuple{it.tb.True, it.mkInt(p), it.intC(int64(r), types.Typ[types.Int32])}
	}
	for mi.Pos < len(mi.Order) {
		i := mi.Order[mi.Pos]
		mi.Pos++
		// entries deleted during iteration are skipped (Go semantics); check presence by identity of key slot
		k := mi.Keys[i]
		present := false
		var cur Value
		for j := range mi.M.K {
			if it.sameKeySlot(mi.M.K[j], k) {
				present = true
				cur = mi.M.V[j]
				break
			}
		}
		if !present {
			continue
		}
		return Tuple{it.tb.True, k, copyVal(cur)}
	}
	tt := x.Type().(*types.Tuple)
	return Tuple{it.tb.False, it.zeroOrNil(tt.At(1).Type()), it.zeroOrNil(tt.At(2).Type())}
}

func (it *Interp) zeroOrNil(t types.Type) Value {
	if b, ok := t.(*types.Basic); ok && b.Kind() == types.Invalid {
		return nil
	}
	return it.zero(t)
}

// sameKeySlot: structural identity without forking (keys stored in a map are pairwise distinct on this path).
func (it *Interp) sameKeySlot(a, b Value) bool {
	e := it.valEq(a, b)
	if e.IsConst() {
		return e.B
	}
	v, ok := it.lookupKnown(e)
	return ok && v
}

// ---------- builtins ----------

var sizeClasses = []int{0, 8, 16, 24, 32, 48, 64, 80, 96, 112, 128, 144, 160, 176, 192, 208, 224, 240, 256, 288, 320, 352, 384, 416, 448, 480, 512, 576, 640, 704, 768, 896, 1024, 1152, 1280, 1408, 1536, 1792, 2048, 2304, 2688, 3072, 3200, 3456, 4096, 4864, 5376, 6144, 6528, 6784, 6912, 8192, 9472, 9728, 10240, 10880, 12288, 13568, 14336, 16384, 18432, 19072, 20480, 21760, 24576, 27264, 28672, 32768}

func roundupsize(n int) int {
	for _, c := range sizeClasses {
		if c >= n {
			return c
		}
	}
	return (n + 8191) / 8192 * 8192
}

// growCap mirrors runtime.growslice (go1.23) for element size es.
func growCap(oldCap, newLen, es int) int {
	newcap := oldCap
	doublecap := newcap + newcap
	if newLen > doublecap {
		newcap = newLen
	} else {
		const threshold = 256
		if oldCap < threshold {
			newcap = doublecap
		} else {
			for {
				newcap += (newcap + 3*threshold) >> 2
				if uint(newcap) >= uint(newLen) {
					break
				}
			}
		}
	}
	if es == 0 {
		return newcap
	}
	mem := roundupsize(newcap * es)
	return mem / es
}

func (it *Interp) appendValues(s SliceV, et types.Type, vals []Value) SliceV {
	if len(vals) == 0 {
		return s
	}
	newLen := s.Len + len(vals)
	if !s.Nil && newLen <= s.Cap {
		for i, v := range vals {
			it.store(it.sliceElemPtr(s, s.Len+i), v)
		}
		return SliceV{Arr: s.Arr, Off: s.Off, Len: newLen, Cap: s.Cap}
	}
	es := int(it.sizes.Sizeof(et))
	nc := growCap(s.Cap, newLen, es)
	if nc > it.cfg.MaxAlloc {
		it.outside("append grows beyond the allocation bound %d", it.cfg.MaxAlloc)
	}
	ns := it.makeSlice(et, newLen, nc)
	for i := 0; i < s.Len; i++ {
		setChild(ns.Arr.Obj.V, i, it.sliceGet(s, i))
	}
	for i, v := range vals {
		setChild(ns.Arr.Obj.V, s.Len+i, copyVal(v))
	}
	return ns
}

func (it *Interp) callBuiltin(b *ssa.Builtin, args []Value, site ssa.Instruction) Value {
	switch b.Name() {
	case "len":
		switch x := args[0].(type) {
		case string:
			return it.mkInt(len(x))
		case *SymStr:
			for _, c := range x.C {
				if c.Tok != "" {
					it.outside("len of a string containing numeric tokens")
				}
			}
			return it.mkInt(len(x.C))
		case SliceV:
			return it.mkInt(x.Len)
		case MapV:
			if x.M == nil {
				return it.mkInt(0)
			}
			return it.mkInt(len(x.M.K))
		case *ArrayV:
			return it.mkInt(len(x.E))
		case Ptr:
			return it.mkInt(it.arrayLen(x))
		case *ChanObj:
			if x == nil {
				return it.mkInt(0)
			}
			return it.mkInt(len(x.Buf))
		}
	case "cap":
		switch x := args[0].(type) {
		case SliceV:
			return it.mkInt(x.Cap)
		case *ArrayV:
			return it.mkInt(len(x.E))
		case Ptr:
			return it.mkInt(it.arrayLen(x))
		case *ChanObj:
			return it.mkInt(x.Cap)
		}
	case "append":
		s := args[0].(SliceV)
		st := b.Type().(*types.Signature).Params().At(0).Type().Underlying().(*types.Slice)
		switch o := args[1].(type) {
		case SliceV:
			vals := make([]Value, o.Len)
			for i := range vals {
				vals[i] = it.sliceGet(o, i)
			}
			return it.appendValues(s, st.Elem(), vals)
		case string:
			vals := make([]Value, len(o))
			for i := range vals {
				vals[i] = it.byteTerm(o[i])
			}
			return it.appendValues(s, st.Elem(), vals)
		case *SymStr:
			vals := make([]Value, len(o.C))
			for i := range vals {
				vals[i] = it.cellToValue(o.C[i])
			}
			return it.appendValues(s, st.Elem(), vals)
		}
	case "copy":
		dst := args[0].(SliceV)
		var vals []Value
		switch o := args[1].(type) {
		case SliceV:
			n := min(dst.Len, o.Len)
			for i := 0; i < n; i++ {
				vals = append(vals, it.sliceGet(o, i))
			}
		case string:
			n := min(dst.Len, len(o))
			for i := 0; i < n; i++ {
				vals = append(vals, it.byteTerm(o[i]))
			}
		case *SymStr:
			n := min(dst.Len, len(o.C))
			for i := 0; i < n; i++ {
				vals = append(vals, it.cellToValue(o.C[i]))
			}
		}
		for i, v := range vals {
			it.store(it.sliceElemPtr(dst, i), v)
		}
		return it.mkInt(len(vals))
	case "delete":
		m := args[0].(MapV)
		if m.M != nil {
			it.mapDelete(m.M, args[1])
		}
		return nil
	case "panic":
		panic(&goPanic{val: args[0], msg: it.describe(args[0])})
	case "recover":
		if it.recoverable != nil && *it.recoverable != nil {
			gp := *it.recoverable
			*it.recoverable = nil
			if gp.runtime {
				return it.runtimeErrorValue(gp.msg)
			}
			return gp.val
		}
		return Iface{}
	case "print", "println":
		return nil
	case "min", "max":
		r := args[0]
		t := b.Type().(*types.Signature).Params().At(0).Type()
		for _, a := range args[1:] {
			var c *Term
			if s, ok := r.(string); ok {
				if b.Name() == "min" {
					c = it.tb.BoolC(a.(string) < s)
				} else {
					c = it.tb.BoolC(a.(string) > s)
				}
			} else if b.Name() == "min" {
				c = it.tb.Cmp(token.LSS, a.(*Term), r.(*Term), isSigned(t))
			} else {
				c = it.tb.Cmp(token.GTR, a.(*Term), r.(*Term), isSigned(t))
			}
			r = it.selectVal(c, a, r)
		}
		return r
	case "clear":
		switch x := args[0].(type) {
		case MapV:
			if x.M != nil {
				x.M.K, x.M.V = nil, nil
			}
		case SliceV:
			et := b.Type().(*types.Signature).Params().At(0).Type().Underlying().(*types.Slice).Elem()
			for i := 0; i < x.Len; i++ {
				it.store(it.sliceElemPtr(x, i), it.zero(et))
			}
		}
		return nil
	case "close":
		it.chanClose(args[0].(*ChanObj))
		return nil
	case "ssa:wrapnilchk":
		if p, ok := args[0].(Ptr); ok && p.IsNil() {
			it.runtimePanic("value method called using nil pointer")
		}
		return args[0]
	}
	it.outside("unsupported builtin %s on %T", b.Name(), args[0])
	return nil
}

// selectVal returns ite(c,a,b), forking in math mode for floats (ite-laden NRA is slow) or when not mergeable.
func (it *Interp) selectVal(c *Term, a, b Value) Value {
	if c.IsConst() {
		if c.B {
			return a
		}
		return b
	}
	if it.mode == Math && !it.cfg.MinMaxIte {
		if t, ok := a.(*Term); ok && t.S.K == SReal {
			if it.decide(c) {
				return a
			}
			return b
		}
	}
	if v, ok := it.iteVal(c, a, b); ok {
		return v
	}
	if it.decide(c) {
		return a
	}
	return b
}

func (it *Interp) runtimeErrorValue(msg string) Value {
	// a runtime.Error is modelled as an *errors.errorString carrying the message
	return it.newError(msg)
}
