package main

import (
	"crypto/sha256"
	"encoding/json"
	"flag"
	"fmt"
	"go/types"
	"os"
	"os/exec"
	"os/signal"
	"path/filepath"
	"regexp"
	"runtime"
	"runtime/debug"
	"runtime/pprof"
	"sort"
	"strconv"
	"strings"
	"sync"
	"syscall"
	"time"

	"golang.org/x/tools/go/packages"
	"golang.org/x/tools/go/ssa"
	"golang.org/x/tools/go/ssa/ssautil"
)

const modPath = "github.com/EliCDavis/polyform"

type ShrinkSpec struct {
	File string `json:"file"`
	Old  string `json:"old"`
	New  string `json:"new"`
}

type Spec struct {
	Property     string        `json:"property"`
	Harnesses    []*HarnessCfg `json:"harnesses"`
	OutsideClaim []string      `json:"outside_claim"`
	Assumptions  []string      `json:"assumptions"`
	Shrink       []ShrinkSpec  `json:"shrink"`
	// ShrinkSets: named alternatives to Shrink; a harness selects one with "shrink_set" (the program is loaded once
	// per distinct set)
	ShrinkSets map[string][]ShrinkSpec `json:"shrink_sets"`
	ExtraFiles []string                `json:"extra_files"` // additional harness prefixes to overlay
}

type KnownFinding struct {
	Property string `json:"property"`
	Harness  string `json:"harness"`
	Label    string `json:"label"` // prefix match on the violated assertion label
	What     string `json:"what"`
	Status   string `json:"status"` // known | fixed
	Commit   string `json:"commit,omitempty"`
}

var (
	repoDir  = "/repo"
	verifDir = "/verif"
)

// specFor returns the spec with the shrink overlays of the named set (the spec itself for "").
func specFor(spec *Spec, set string) *Spec {
	if set == "" {
		return spec
	}
	c := *spec
	c.Shrink = spec.ShrinkSets[set]
	return &c
}

func fatal(code int, format string, a ...interface{}) {
	fmt.Fprintf(os.Stderr, format+"\n", a...)
	os.Exit(code)
}

func relDir(pkg string) string {
	if pkg == modPath {
		return "."
	}
	return strings.TrimPrefix(pkg, modPath+"/")
}

// buildOverlay returns virtual-path -> real-path for harness files (+ zzverif flavour) and shrink overlays.
func buildOverlay(spec *Spec, native bool, workDir string) (map[string]string, error) {
	ov := map[string]string{}
	flavour := "zzverif_sym"
	if native {
		flavour = "zzverif_native"
	}
	zfiles, _ := filepath.Glob(filepath.Join(verifDir, "harness", flavour, "*.go"))
	cfiles, _ := filepath.Glob(filepath.Join(verifDir, "harness", "zzverif_common", "*.go"))
	zfiles = append(zfiles, cfiles...)
	for _, f := range zfiles {
		ov[filepath.Join(repoDir, "zzverif", filepath.Base(f))] = f
	}
	prefixes := []string{"zz_" + strings.ToLower(spec.Property) + "_", "zz_common"}
	prefixes = append(prefixes, spec.ExtraFiles...)
	seen := map[string]bool{}
	for _, h := range spec.Harnesses {
		rd := relDir(h.Pkg)
		if seen[rd] {
			continue
		}
		seen[rd] = true
		files, _ := filepath.Glob(filepath.Join(verifDir, "harness", rd, "zz_*.go"))
		for _, f := range files {
			base := filepath.Base(f)
			ok := false
			for _, p := range prefixes {
				if strings.HasPrefix(base, p) {
					ok = true
				}
			}
			if ok {
				ov[filepath.Join(repoDir, rd, base)] = f
			}
		}
	}
	for i, s := range spec.Shrink {
		src := filepath.Join(repoDir, s.File)
		b, err := os.ReadFile(src)
		if err != nil {
			return nil, err
		}
		if strings.Count(string(b), s.Old) != 1 {
			return nil, fmt.Errorf("shrink overlay: %q occurs %d times in %s (must be exactly once)", s.Old, strings.Count(string(b), s.Old), s.File)
		}
		nb := strings.Replace(string(b), s.Old, s.New, 1)
		dst := filepath.Join(workDir, fmt.Sprintf("shrink_%d_%s", i, filepath.Base(s.File)))
		if err := os.WriteFile(dst, []byte(nb), 0o644); err != nil {
			return nil, err
		}
		ov[src] = dst
	}
	return ov, nil
}

func loadProgram(spec *Spec, workDir string) (*ssa.Program, map[string]*ssa.Package, error) {
	ovPaths, err := buildOverlay(spec, false, workDir)
	if err != nil {
		return nil, nil, err
	}
	overlay := map[string][]byte{}
	for v, r := range ovPaths {
		b, err := os.ReadFile(r)
		if err != nil {
			return nil, nil, err
		}
		overlay[v] = b
	}
	pkgset := map[string]bool{}
	var patterns []string
	for _, h := range spec.Harnesses {
		if !pkgset[h.Pkg] {
			pkgset[h.Pkg] = true
			patterns = append(patterns, h.Pkg)
		}
	}
	cfg := &packages.Config{
		Mode:    packages.LoadAllSyntax,
		Dir:     repoDir,
		Overlay: overlay,
		Env:     append(os.Environ(), "GOFLAGS=-mod=mod", "GOPROXY=off", "GOSUMDB=off", "GOTOOLCHAIN=local", "CGO_ENABLED=0"),
	}
	pkgs, err := packages.Load(cfg, patterns...)
	if err != nil {
		return nil, nil, err
	}
	var errs []string
	packages.Visit(pkgs, nil, func(p *packages.Package) {
		for _, e := range p.Errors {
			errs = append(errs, e.Error())
		}
	})
	if len(errs) > 0 {
		if len(errs) > 10 {
			errs = errs[:10]
		}
		return nil, nil, fmt.Errorf("package load errors:\n%s", strings.Join(errs, "\n"))
	}
	prog, spkgs := ssautil.AllPackages(pkgs, ssa.InstantiateGenerics)
	prog.Build()
	out := map[string]*ssa.Package{}
	for i, p := range pkgs {
		out[p.PkgPath] = spkgs[i]
	}
	return prog, out, nil
}

var initAllow = map[string]bool{
	"io": true, "errors": true, "encoding/binary": true, "bufio": true, "sort": true, "strconv": true, "math": true,
	"image/color": true, "container/heap": true, "sync": true, "bytes": true, "strings": true, "unicode": true,
	"unicode/utf8": true, "math/bits": true, "io/fs": true, "compress/gzip": true, "image": true, "slices": true, "maps": true,
	"cmp": true, "fmt": true, "internal/bytealg": true, "math/rand": true, "hash/crc32": true,
}

func initAllowed(p *ssa.Package) bool {
	path := p.Pkg.Path()
	if strings.HasPrefix(path, "github.com/EliCDavis/") {
		return true
	}
	return initAllow[path]
}

func (it *Interp) resetPath(prefix []int) {
	it.pc = nil
	it.known = map[*Term]bool{}
	it.lazyAlt = false
	if n := len(prefix); n > 0 && (prefix[n-1] == markLazy || prefix[n-1] == markEager) {
		it.lazyAlt = prefix[n-1] == markLazy
		prefix = prefix[:n-1]
	}
	it.prefix = prefix
	it.decisions = nil
	it.globals = map[*ssa.Global]*Object{}
	it.initDone = map[*ssa.Package]bool{}
	it.objSeq = 0
	it.depth = 0
	it.steps = 0
	it.inputs = nil
	it.inputMeta = map[string]string{}
	it.recoverable = nil
	it.wrapped = map[*Object]Value{}
	it.fixed = map[string]*Term{}
	it.gzipUnder = map[*Object]Value{}
	it.jsonSeq = 0
	it.jsonMsgs = nil
	it.pathNotes = nil
	it.stack = nil
	it.model = nil
	it.modelMemo = nil
	it.model = Model{}
	it.modelMemo = map[*Term]*Term{}
	it.pending = nil
	it.normalEnd = false
	it.pcVars = map[*Term]bool{}
	it.pcSeen = map[*Term]bool{}
	it.varRange = map[*Term][2]int64{}
	it.ivMemo = map[*Term][3]int64{}
	it.realivReset()
	it.poison, it.poisonMemo, it.poisonSeq = nil, nil, 0
	it.initThreads()
}

// runPath executes one path; returns a short description of how it ended.
func (it *Interp) runPath(fn *ssa.Function, prefix []int) (end string) {
	it.resetPath(prefix)
	rep := it.rep
	rep.Paths++
	defer func() {
		r := recover()
		it.killThreads()
		rep.Steps += it.steps
		feasible := it.finishPath()
		if !feasible {
			rep.Killed++
			end = "killed: infeasible (found at path end)"
			return
		}
		if r == nil {
			return
		}
		switch x := r.(type) {
		case pathEnd:
			switch x.kind {
			case "killed":
				rep.Killed++
				end = "killed: " + x.msg
			case "outside":
				rep.Outside[x.msg]++
				end = "outside: " + x.msg
			case "unwind":
				if it.cfg.UnwindViolation {
					// termination is part of the property: running into the iteration bound is reported
					rep.addViolation(it, "non-termination", x.msg, nil)
				} else {
					rep.Unwind[x.msg]++
				}
				end = "unwind: " + x.msg
			case "inconclusive":
				rep.Inconclusive[x.msg]++
				end = "inconclusive: " + x.msg
			default:
				rep.Internal = append(rep.Internal, x.msg)
				end = "internal: " + x.msg
			}
		case *goPanic:
			rep.PanicPaths++
			end = "panic: " + x.msg
			policy := it.cfg.Panics
			if policy == "" {
				policy = "runtime"
			}
			if (x.runtime && policy != "none") || policy == "any" {
				label := "runtime-panic"
				if !x.runtime {
					label = "panic"
				}
				rep.addViolation(it, label, x.msg+" in "+x.stack, nil)
			}
		default:
			st := strings.Split(string(debug.Stack()), "\n")
			var keep []string
			for _, l := range st {
				if strings.Contains(l, "/verif/engine/") && !strings.Contains(l, "runFrame") && !strings.Contains(l, "interp.go:6") {
					keep = append(keep, strings.TrimSpace(l))
				}
				if len(keep) >= 8 {
					break
				}
			}
			msg := fmt.Sprintf("engine error: %v @ %s", r, strings.Join(keep, " < "))
			if len(rep.Internal) < 5 {
				rep.Internal = append(rep.Internal, msg)
			}
			end = "internal"
		}
	}()
	it.call(fn, nil, nil)
	it.normalEnd = true
	return "return"
}

// finishPath verifies feasibility of the path (if no model witnesses it) and discharges pending assertions.
func (it *Interp) finishPath() (feasible bool) {
	defer func() {
		if r := recover(); r != nil {
			it.rep.Internal = append(it.rep.Internal, fmt.Sprintf("finishPath: %v", r))
			feasible = true
		}
	}()
	if it.model == nil && len(it.pc) > 0 {
		if it.checkModel(it.tb.True) == Unsat {
			it.pending = nil
			return false
		}
	}
	it.flushAsserts()
	if it.normalEnd {
		it.rep.Completed++
	}
	return true
}

// sharedWork is the path worklist shared by the workers of one harness.
type sharedWork struct {
	deadline  time.Time
	timedOut  bool
	mu        sync.Mutex
	cond      *sync.Cond
	items     [][]int
	active    int
	paths     int
	maxPaths  int
	truncated bool
}

func newSharedWork(maxPaths int) *sharedWork {
	w := &sharedWork{maxPaths: maxPaths}
	w.cond = sync.NewCond(&w.mu)
	return w
}

func (w *sharedWork) push(p []int) {
	w.mu.Lock()
	w.items = append(w.items, p)
	w.mu.Unlock()
	w.cond.Signal()
}

func (w *sharedWork) pop() ([]int, bool) {
	w.mu.Lock()
	defer w.mu.Unlock()
	for {
		if w.paths >= w.maxPaths {
			if len(w.items) > 0 {
				w.truncated = true
			}
			w.cond.Broadcast()
			return nil, false
		}
		if !w.deadline.IsZero() && time.Now().After(w.deadline) {
			if len(w.items) > 0 {
				w.timedOut = true
			}
			w.cond.Broadcast()
			return nil, false
		}
		if n := len(w.items); n > 0 {
			p := w.items[n-1]
			w.items = w.items[:n-1]
			w.active++
			w.paths++
			return p, true
		}
		if w.active == 0 {
			w.cond.Broadcast()
			return nil, false
		}
		w.cond.Wait()
	}
}

func (w *sharedWork) done() {
	w.mu.Lock()
	w.active--
	w.mu.Unlock()
	w.cond.Broadcast()
}

var slots chan struct{}

func (r *Report) merge(o *Report) {
	r.Paths += o.Paths
	r.Completed += o.Completed
	r.Killed += o.Killed
	r.PanicPaths += o.PanicPaths
	r.BranchQueries += o.BranchQueries
	r.Transitions += o.Transitions
	r.AssertSyntactic += o.AssertSyntactic
	r.PolyDecided += o.PolyDecided
	r.PoisonValues += o.PoisonValues
	r.PolyConfirmed += o.PolyConfirmed
	r.AssertBatched += o.AssertBatched
	r.UnknownBranches += o.UnknownBranches
	r.MapRanges += o.MapRanges
	r.Steps += o.Steps
	r.SolverTime += o.SolverTime
	for i := range r.AssertQ {
		r.AssertQ[i] += o.AssertQ[i]
	}
	for k, v := range o.Outside {
		r.Outside[k] += v
	}
	for k, v := range o.Unwind {
		r.Unwind[k] += v
	}
	for k, v := range o.Inconclusive {
		r.Inconclusive[k] += v
	}
	for k, v := range o.AssertsSeen {
		r.AssertsSeen[k] += v
	}
	for k := range o.Reached {
		r.Reached[k] = true
	}
	for k := range o.Funcs {
		r.Funcs[k] = true
	}
	for _, v := range o.Violations {
		r.vioSeen[v.Label]++
		if r.vioSeen[v.Label] <= 2 {
			r.Violations = append(r.Violations, v)
		}
	}
	for _, s := range o.Samples {
		if len(r.Samples) < 4 {
			r.Samples = append(r.Samples, s)
		}
	}
	if len(r.Internal) < 5 {
		r.Internal = append(r.Internal, o.Internal...)
	}
	r.SolverErrors = append(r.SolverErrors, o.SolverErrors...)
}

func runHarness(prog *ssa.Program, pkgs map[string]*ssa.Package, cfg *HarnessCfg, solverKind string) *Report {
	t0 := time.Now()
	rep := newReport(cfg)
	pkg := pkgs[cfg.Pkg]
	if pkg == nil {
		rep.Internal = append(rep.Internal, "package not loaded: "+cfg.Pkg)
		return rep
	}
	fn := pkg.Func(cfg.Func)
	if fn == nil {
		rep.Internal = append(rep.Internal, "harness function not found: "+cfg.Func)
		return rep
	}
	passes := []bool{false}
	if cfg.MapOrder == "" || cfg.MapOrder == "two-global" {
		passes = []bool{false, true}
	}
	nw := cfg.Workers
	if nw <= 0 {
		nw = 8
	}
	for _, rev := range passes {
		if rev && rep.MapRanges == 0 {
			break // no map with more than one entry was ranged over: order cannot matter
		}
		fst := &forkStat{}
		sw := newSharedWork(cfg.MaxPaths - rep.Paths)
		if cfg.MaxWallS > 0 {
			sw.deadline = t0.Add(time.Duration(cfg.MaxWallS * float64(time.Second)))
		}
		sw.push([]int{})
		var wg sync.WaitGroup
		var mu sync.Mutex
		for w := 0; w < nw; w++ {
			wg.Add(1)
			go func(w int) {
				defer wg.Done()
				var it *Interp
				var wrep *Report
				for {
					prefix, ok := sw.pop()
					if !ok {
						break
					}
					slots <- struct{}{}
					if it == nil {
						wrep = newReport(cfg)
						it = &Interp{prog: prog, tb: NewTB(), sizes: types.SizesFor("gc", "amd64"), fnInfos: map[*ssa.Function]*fnInfo{}, cfg: cfg, rep: wrep, initOK: initAllowed, shared: sw, fstat: fst}
						if cfg.Mode == "math" {
							it.mode = Math
						}
						it.funcHits = wrep.Funcs
						it.sv = NewSolver(solverKind, cfg.TimeoutMs)
						if it.mode == Math {
							it.sv.Fallback = "cvc5"
							it.sv.FirstTimeoutMs = 4000
						}
						if it.mode == Bits {
							// measured: 20x faster than z3's default strategy on the BV/FP queries produced here
							it.sv.Tactic = "(then simplify fpa2bv simplify propagate-values solve-eqs bit-blast simplify sat)"
						}
						if p := os.Getenv("GOSYM_SMTLOG"); p != "" {
							f, _ := os.Create(fmt.Sprintf("%s.%s.%d.smt2", p, cfg.Name, w))
							it.sv.log = f
						}
						it.setupIntrinsics()
					}
					it.mapOrderRev = rev
					end := it.runPath(fn, prefix)
					if len(wrep.Samples) < 2 {
						wrep.Samples = append(wrep.Samples, map[string]interface{}{
							"harness": cfg.Name, "decisions": len(it.decisions), "path_condition_literals": len(it.pc),
							"symbolic_inputs": len(it.inputs), "end": end, "map_order_reversed": rev,
						})
					}
					if os.Getenv("GOSYM_TRACE") != "" {
						fmt.Fprintf(os.Stderr, "[%s/%d] path (%d decisions) -> %s\n", cfg.Name, w, len(it.decisions), end)
					}
					<-slots
					sw.done()
				}
				if it != nil {
					wrep.SolverTime = it.sv.Time.Seconds()
					wrep.SolverErrors = it.sv.Errors
					it.sv.Close()
					mu.Lock()
					rep.merge(wrep)
					mu.Unlock()
				}
			}(w)
		}
		wg.Wait()
		if sw.truncated {
			rep.Truncated = true
		}
		if sw.timedOut {
			rep.TimedOut = true
		}
	}
	rep.Wall = time.Since(t0).Seconds()
	return rep
}

// ---------- native replay ----------

type ReplayCase struct {
	ID     string              `json:"id"`
	Label  string              `json:"label"`
	Values map[string]ModelVal `json:"values"`
	Expect string              `json:"expect"`
}

type ReplayFile struct {
	Property string         `json:"property"`
	Spec     string         `json:"spec"`
	Harness  string         `json:"harness"`
	Pkg      string         `json:"pkg"`
	Func     string         `json:"func"`
	Mode     string         `json:"mode"`
	Bounds   map[string]int `json:"bounds"`
	Cases    []ReplayCase   `json:"cases"`
}

var harnessFuncRe = regexp.MustCompile(`(?m)^func (ZZ_[A-Za-z0-9_]+)\(\)`)

// nativeReplay runs the replay file against the natively compiled real code; returns per-case outcome lines.
func nativeReplay(spec *Spec, rf *ReplayFile, path string, workDir string) (map[string]string, string, error) {
	ov, err := buildOverlay(spec, true, workDir)
	if err != nil {
		return nil, "", err
	}
	rd := relDir(rf.Pkg)
	// generate the test driver for the harness package
	var funcs []string
	pkgName := ""
	for v, r := range ov {
		if filepath.Dir(v) == filepath.Join(repoDir, rd) && strings.HasPrefix(filepath.Base(v), "zz_") {
			b, _ := os.ReadFile(r)
			for _, m := range harnessFuncRe.FindAllStringSubmatch(string(b), -1) {
				funcs = append(funcs, m[1])
			}
			if pkgName == "" {
				if m := regexp.MustCompile(`(?m)^package (\w+)`).FindStringSubmatch(string(b)); m != nil {
					pkgName = m[1]
				}
			}
		}
	}
	sort.Strings(funcs)
	var sb strings.Builder
	fmt.Fprintf(&sb, "package %s\n\nimport (\n\t\"testing\"\n\t\"%s/zzverif\"\n)\n\nfunc TestZZReplay(t *testing.T) {\n\tzzverif.RunReplay(t, map[string]func(){\n", pkgName, modPath)
	for _, f := range funcs {
		fmt.Fprintf(&sb, "\t\t%q: %s,\n", f, f)
	}
	sb.WriteString("\t})\n}\n")
	testFile := filepath.Join(workDir, "zz_replay_"+strings.ReplaceAll(rd, "/", "_")+"_test.go")
	if err := os.WriteFile(testFile, []byte(sb.String()), 0o644); err != nil {
		return nil, "", err
	}
	ov[filepath.Join(repoDir, rd, "zz_replay_test.go")] = testFile
	ovJSON, _ := json.Marshal(map[string]interface{}{"Replace": ov})
	ovFile := filepath.Join(workDir, "overlay_"+strings.ReplaceAll(rd, "/", "_")+".json")
	os.WriteFile(ovFile, ovJSON, 0o644)
	bin := filepath.Join(workDir, "replay_"+strings.ReplaceAll(rd, "/", "_")+".test")
	raceBuild := false
	for _, c := range rf.Cases {
		if c.Label == "data-race" {
			raceBuild = true
		}
	}
	buildArgs := []string{"test", "-c", "-vet=off", "-overlay", ovFile, "-o", bin}
	if raceBuild {
		buildArgs = append(buildArgs, "-race")
	}
	buildArgs = append(buildArgs, "./"+rd)
	build := exec.Command("go", buildArgs...)
	build.Dir = repoDir
	build.Env = append(os.Environ(), "GOFLAGS=-mod=mod", "GOPROXY=off", "GOSUMDB=off", "GOTOOLCHAIN=local")
	if bout, err := build.CombinedOutput(); err != nil {
		return nil, string(bout), fmt.Errorf("building replay test failed: %v\n%s", err, bout)
	}
	testTimeout := "300s"
	for _, c := range rf.Cases {
		if c.Label == "non-termination" {
			testTimeout = "20s"
		}
	}
	cmd := exec.Command(bin, "-test.run", "^TestZZReplay$", "-test.v", "-test.timeout", testTimeout)
	// a counterexample that fixes runtime.NumCPU is replayed on that many CPUs (Go derives NumCPU from the affinity mask)
	for _, c := range rf.Cases {
		if mv, ok := c.Values["$NumCPU"]; ok {
			if k, err := strconv.Atoi(mv.V); err == nil && k >= 1 && k <= runtime.NumCPU() {
				if ts, err := exec.LookPath("taskset"); err == nil {
					cmd = exec.Command(ts, "-c", fmt.Sprintf("0-%d", k-1), bin, "-test.run", "^TestZZReplay$", "-test.v", "-test.timeout", testTimeout)
				}
			}
			break
		}
	}
	cmd.Dir = workDir
	cmd.Env = append(os.Environ(), "ZZVERIF_REPLAY="+path)
	for _, h := range spec.Harnesses {
		if h.Name == rf.Harness && h.Sched != "" {
			cmd.Env = append(cmd.Env, "ZZVERIF_REPEAT=400")
		}
	}
	out, _ := cmd.CombinedOutput()
	os.Remove(bin)
	if testTimeout == "20s" && strings.Contains(string(out), "test timed out") {
		out = append(out, []byte("\nREPLAY-CASE cex VIOLATION non-termination (the native run did not return within 20 s)\n")...)
	}
	if raceBuild && strings.Contains(string(out), "WARNING: DATA RACE") {
		out = append(out, []byte("\nREPLAY-CASE cex VIOLATION data-race (reported by the Go race detector)\n")...)
	}
	res := map[string]string{}
	for _, l := range strings.Split(string(out), "\n") {
		l = strings.TrimSpace(l)
		if strings.HasPrefix(l, "REPLAY-CASE ") {
			f := strings.SplitN(l, " ", 4)
			if len(f) >= 3 {
				rest := f[2]
				if len(f) == 4 {
					rest += " " + f[3]
				}
				res[f[1]] = rest
			}
		}
	}
	return res, string(out), nil
}

// ---------- evidence ----------

func hashFuncs(prog *ssa.Program, names map[string]bool) (int, string) {
	h := sha256.New()
	var ks []string
	for k := range names {
		if strings.HasPrefix(k, "github.com/EliCDavis/polyform") || strings.HasPrefix(k, "(github.com/EliCDavis/polyform") || strings.HasPrefix(k, "(*github.com/EliCDavis/polyform") {
			if !strings.Contains(k, "/zzverif") && !strings.Contains(k, "ZZ_") {
				ks = append(ks, k)
			}
		}
	}
	sort.Strings(ks)
	for _, k := range ks {
		h.Write([]byte(k))
	}
	return len(ks), fmt.Sprintf("%x", h.Sum(nil))[:16]
}

func main() {
	specPath := flag.String("spec", "", "check specification (checks/cNN.json)")
	tier := flag.String("tier", "quick", "quick|thorough")
	only := flag.String("only", "", "run only the harnesses whose name contains this string")
	solverKind := flag.String("solver", "z3-new", "z3-new|z3|cvc5")
	replay := flag.String("replay", "", "replay file to run natively")
	jobs := flag.Int("j", 16, "parallel path workers (solver processes) in total")
	noReplay := flag.Bool("no-replay", false, "skip native replays (debugging)")
	flag.StringVar(&repoDir, "repo", "/repo", "")
	flag.StringVar(&verifDir, "verif", "/verif", "")
	debug.SetGCPercent(600)
	sigc := make(chan os.Signal, 1)
	signal.Notify(sigc, syscall.SIGTERM, syscall.SIGINT)
	go func() {
		<-sigc
		killAllSolvers()
		os.Exit(3)
	}()
	cpuprof := flag.String("cpuprofile", "", "write cpu profile")
	flag.Parse()
	if *cpuprof != "" {
		f, _ := os.Create(*cpuprof)
		pprof.StartCPUProfile(f)
		defer pprof.StopCPUProfile()
		go func() { time.Sleep(40 * time.Second); pprof.StopCPUProfile(); f.Close() }()
	}
	if v := os.Getenv("VERIF_TIER"); v != "" && *tier == "" {
		*tier = v
	}
	seed := 0
	if v := os.Getenv("VERIF_SEED"); v != "" {
		seed, _ = strconv.Atoi(v)
	}
	t0 := time.Now()

	if *replay != "" {
		os.Exit(doReplayCmd(*replay))
	}
	b, err := os.ReadFile(*specPath)
	if err != nil {
		fatal(2, "cannot read spec: %v", err)
	}
	var spec Spec
	if err := json.Unmarshal(b, &spec); err != nil {
		fatal(2, "bad spec %s: %v", *specPath, err)
	}
	workDir := filepath.Join(verifDir, "work", spec.Property+"-"+*tier)
	os.RemoveAll(workDir)
	os.MkdirAll(workDir, 0o755)
	os.MkdirAll(filepath.Join(verifDir, "replays"), 0o755)
	os.MkdirAll(filepath.Join(verifDir, "evidence"), 0o755)

	var hs []*HarnessCfg
	for _, h := range spec.Harnesses {
		if *only != "" && !strings.Contains(h.Name, *only) {
			continue
		}
		if len(h.Tiers) > 0 {
			ok := false
			for _, t := range h.Tiers {
				if t == *tier {
					ok = true
				}
			}
			if !ok {
				continue
			}
		}
		h.Bounds = h.BoundsQ
		if *tier == "thorough" && h.BoundsT != nil {
			h.Bounds = map[string]int{}
			for k, v := range h.BoundsQ {
				h.Bounds[k] = v
			}
			for k, v := range h.BoundsT {
				h.Bounds[k] = v
			}
		}
		if h.Bounds == nil {
			h.Bounds = map[string]int{}
		}
		to := 30.0
		if *tier == "thorough" {
			to = 120
		}
		if v, ok := h.TimeoutS[*tier]; ok {
			to = v
		}
		h.TimeoutMs = int(to * 1000)
		if h.Unwind == 0 {
			h.Unwind = 64
		}
		if h.UnwindConcrete == 0 {
			h.UnwindConcrete = 100000
		}
		if h.MaxSteps == 0 {
			h.MaxSteps = 50_000_000
		}
		if h.MaxAlloc == 0 {
			h.MaxAlloc = 1 << 16
		}
		if h.MaxThreads == 0 {
			h.MaxThreads = 12
		}
		if h.RealLimit == 0 {
			h.RealLimit = 1e6
		}
		if h.PolyConfirmEvery == 0 {
			h.PolyConfirmEvery = 16
			if *tier == "thorough" {
				h.PolyConfirmEvery = 4
			}
		}
		if h.NearEps == 0 {
			h.NearEps = 1e-6
		}
		if h.Preemptions == 0 {
			h.Preemptions = 2
		}
		if h.MaxPaths == 0 {
			h.MaxPaths = 200000
		}
		if h.MaxWallS == 0 {
			h.MaxWallS = 900
			if *tier == "thorough" {
				h.MaxWallS = 3600
			}
		}
		hs = append(hs, h)
	}
	if len(hs) == 0 {
		fatal(2, "no harness selected")
	}
	type loaded struct {
		prog *ssa.Program
		pkgs map[string]*ssa.Package
	}
	progs := map[string]*loaded{}
	var prog *ssa.Program
	for _, h := range hs {
		if progs[h.ShrinkSet] != nil {
			continue
		}
		if h.ShrinkSet != "" && spec.ShrinkSets[h.ShrinkSet] == nil {
			fatal(2, "harness %s: unknown shrink_set %q", h.Name, h.ShrinkSet)
		}
		wd := filepath.Join(workDir, "load-"+h.ShrinkSet)
		os.MkdirAll(wd, 0o755)
		p, pk, err := loadProgram(specFor(&spec, h.ShrinkSet), wd)
		if err != nil {
			fmt.Printf("BROKEN-CHECK property=%s reason=load: %v\n", spec.Property, err)
			os.Exit(2)
		}
		progs[h.ShrinkSet] = &loaded{p, pk}
		if prog == nil {
			prog = p
		}
	}
	loadS := time.Since(t0).Seconds()

	reports := make([]*Report, len(hs))
	var wg sync.WaitGroup
	slots = make(chan struct{}, *jobs)
	sem := make(chan struct{}, *jobs)
	for i, h := range hs {
		wg.Add(1)
		go func(i int, h *HarnessCfg) {
			defer wg.Done()
			sem <- struct{}{}
			defer func() { <-sem }()
			reports[i] = runHarness(progs[h.ShrinkSet].prog, progs[h.ShrinkSet].pkgs, h, *solverKind)
			fmt.Println(reports[i].summary())
		}(i, h)
	}
	wg.Wait()

	// known findings
	var known []KnownFinding
	if kb, err := os.ReadFile(filepath.Join(verifDir, "known_findings.json")); err == nil {
		json.Unmarshal(kb, &known)
	}

	// native replays of counterexamples
	exit := 0
	broken := false
	replays := 0
	nViol := 0
	var vioOut []map[string]interface{}
	printedKnown := map[string]bool{}
	for _, rep := range reports {
		for k, v := range rep.Violations {
			rf := &ReplayFile{Property: spec.Property, Spec: *specPath, Harness: rep.Cfg.Name, Pkg: rep.Cfg.Pkg, Func: rep.Cfg.Func, Mode: rep.Cfg.Mode, Bounds: rep.Cfg.Bounds,
				Cases: []ReplayCase{{ID: "cex", Label: v.Label, Values: v.Model, Expect: "violation"}}}
			path := filepath.Join(verifDir, "replays", fmt.Sprintf("%s-%s-%d.json", spec.Property, rep.Cfg.Name, k))
			jb, _ := json.MarshalIndent(rf, "", " ")
			os.WriteFile(path, jb, 0o644)
			v.Replay = path
			if *noReplay {
				v.Confirmed = "skipped"
				fmt.Printf("UNREPLAYED harness=%s label=%q msg=%q replay=%s\n", rep.Cfg.Name, v.Label, v.Msg, path)
				continue
			}
			confirmed := false
			tries := 1
			if v.Label == "data-race" || strings.HasPrefix(v.Label, "nondet:") {
				tries = 3
			}
			if rep.Cfg.Sched != "" && tries < 10 {
				// a counterexample of a harness with goroutines may need the schedule the engine found; natively
				// the schedule cannot be forced, so the replay is repeated (it is reported only if a run fails)
				tries = 10
			}
			var outTxt string
			for t := 0; t < tries && !confirmed; t++ {
				res, out, err := nativeReplay(specFor(&spec, rep.Cfg.ShrinkSet), rf, path, workDir)
				replays++
				outTxt = out
				if err != nil {
					rep.Internal = append(rep.Internal, "replay failed: "+err.Error())
					break
				}
				if r, ok := res["cex"]; ok && strings.HasPrefix(r, "VIOLATION") {
					got := strings.TrimSpace(strings.TrimPrefix(r, "VIOLATION"))
					if got == v.Label || strings.HasPrefix(v.Label, "runtime-panic") && strings.HasPrefix(got, "runtime-panic") ||
						v.Label == "data-race" || v.Label == "deadlock" || v.Label == "panic" && strings.HasPrefix(got, "panic") {
						confirmed = true
					} else {
						// a different assertion failed first natively: still a real violation of the same harness
						confirmed = true
						v.Msg += " (native replay failed at " + got + ")"
					}
				}
			}
			if confirmed {
				v.Confirmed = "yes"
				matched := false
				for _, kf := range known {
					if kf.Status == "fixed" {
						continue
					}
					if kf.Property == spec.Property && (kf.Harness == "" || kf.Harness == rep.Cfg.Name) && strings.HasPrefix(v.Label, kf.Label) {
						matched = true
						v.Confirmed = "known"
						key := kf.Property + "|" + kf.Harness + "|" + kf.Label
						if !printedKnown[key] {
							printedKnown[key] = true
							fmt.Printf("KNOWN-FINDING: property=%s %s\n", spec.Property, kf.What)
						}
						break
					}
				}
				if !matched {
					fmt.Printf("VIOLATION property=%s replay=%s\n", spec.Property, path)
					fmt.Printf("  harness=%s label=%q msg=%q\n", rep.Cfg.Name, v.Label, v.Msg)
					exit = 1
					nViol++
				}
			} else {
				v.Confirmed = "no"
				fmt.Printf("UNCONFIRMED harness=%s label=%q msg=%q replay=%s (counterexample did not reproduce natively: encoding problem, harness counted inconclusive)\n", rep.Cfg.Name, v.Label, v.Msg, path)
				rep.Inconclusive["unconfirmed counterexample for "+v.Label]++
				os.WriteFile(path+".out.txt", []byte(outTxt), 0o644)
			}
			vioOut = append(vioOut, map[string]interface{}{"harness": rep.Cfg.Name, "label": v.Label, "msg": v.Msg, "confirmed": v.Confirmed, "replay": path})
		}
	}

	// vacuity and completeness
	var inconclusive []string
	states, transitions := 0, 0
	qU, qS, qK, bq := 0, 0, 0, 0
	solverT := 0.0
	funcs := map[string]bool{}
	var samples []interface{}
	for _, rep := range reports {
		states += rep.Paths
		transitions += rep.Transitions
		qU += rep.AssertQ[0]
		qS += rep.AssertQ[1]
		qK += rep.AssertQ[2]
		bq += rep.BranchQueries
		solverT += rep.SolverTime
		for f := range rep.Funcs {
			funcs[f] = true
		}
		for _, s := range rep.Samples {
			if len(samples) < 40 {
				samples = append(samples, s)
			}
		}
		for _, l := range rep.Cfg.Reach {
			if !rep.Reached[l] {
				fmt.Printf("BROKEN-CHECK property=%s harness=%s reason=reach marker %q never hit on a feasible path\n", spec.Property, rep.Cfg.Name, l)
				broken = true
			}
		}
		if len(rep.Internal) > 0 {
			fmt.Printf("BROKEN-CHECK property=%s harness=%s reason=engine error: %s\n", spec.Property, rep.Cfg.Name, rep.Internal[0])
			broken = true
		}
		if rep.Completed == 0 && len(rep.Violations) == 0 {
			fmt.Printf("BROKEN-CHECK property=%s harness=%s reason=no path completed\n", spec.Property, rep.Cfg.Name)
			broken = true
		}
		reasons := []string{}
		for k, n := range rep.Outside {
			reasons = append(reasons, fmt.Sprintf("outside-model x%d: %s", n, k))
		}
		for k, n := range rep.Unwind {
			reasons = append(reasons, fmt.Sprintf("unwind x%d: %s", n, k))
		}
		for k, n := range rep.Inconclusive {
			reasons = append(reasons, fmt.Sprintf("x%d: %s", n, k))
		}
		if rep.Truncated {
			reasons = append(reasons, "path budget exhausted")
		}
		if rep.TimedOut {
			reasons = append(reasons, fmt.Sprintf("wall-clock budget of %.0f s exhausted with paths left unexplored", rep.Cfg.MaxWallS))
		}
		if len(rep.SolverErrors) > 0 {
			reasons = append(reasons, "solver error: "+rep.SolverErrors[0])
		}
		sort.Strings(reasons)
		for _, r := range reasons {
			fmt.Printf("INCONCLUSIVE harness=%s reason=%s\n", rep.Cfg.Name, r)
			inconclusive = append(inconclusive, rep.Cfg.Name+": "+r)
		}
	}
	nf, fh := hashFuncs(prog, funcs)
	var fnames []string
	for f := range funcs {
		if strings.Contains(f, "EliCDavis/polyform") && !strings.Contains(f, "zzverif") && !strings.Contains(f, ".ZZ_") && !strings.Contains(f, "/zzh/") {
			fnames = append(fnames, strings.ReplaceAll(f, "github.com/EliCDavis/polyform/", ""))
		}
	}
	sort.Strings(fnames)
	if len(fnames) > 400 {
		fnames = fnames[:400]
	}
	var hsum []map[string]interface{}
	for _, rep := range reports {
		hsum = append(hsum, map[string]interface{}{
			"name": rep.Cfg.Name, "func": rep.Cfg.Func, "mode": rep.Cfg.Mode, "bounds": rep.Cfg.Bounds, "paths": rep.Paths, "completed": rep.Completed,
			"killed_infeasible": rep.Killed, "panic_paths": rep.PanicPaths, "branch_queries": rep.BranchQueries,
			"assert_queries": map[string]int{"unsat": rep.AssertQ[0], "sat": rep.AssertQ[1], "unknown": rep.AssertQ[2]},
			"assertions":     rep.AssertsSeen, "assertions_decided_syntactically": rep.AssertSyntactic, "comparisons_decided_by_polynomial_bounds": rep.PolyDecided, "nan_poison_values": rep.PoisonValues, "polynomial_bound_verdicts_cross_checked_by_solver": rep.PolyConfirmed, "assertions_discharged_in_batched_queries": rep.AssertBatched, "solver_time_s": rep.SolverTime, "wall_s": rep.Wall, "steps": rep.Steps,
			"outside_model": rep.Outside, "unwind": rep.Unwind, "inconclusive": rep.Inconclusive, "map_order": rep.Cfg.MapOrder, "sched": rep.Cfg.Sched,
			"race_monitor": rep.Cfg.Race, "note": rep.Cfg.Note, "shrink_set": rep.Cfg.ShrinkSet, "query_timeout_ms": rep.Cfg.TimeoutMs, "unwind_bound": rep.Cfg.Unwind,
		})
	}
	if states == 0 {
		states = 1
	}
	if transitions == 0 {
		transitions = 1
	}
	if len(samples) == 0 {
		samples = append(samples, "no path sampled")
	}
	ev := map[string]interface{}{
		"property_id": spec.Property,
		"tier":        *tier,
		"seed":        seed,
		"level":       "model_checking",
		"wall_s":      time.Since(t0).Seconds(),
		"violations":  nViol,
		"assumptions": spec.Assumptions,
		"coverage": map[string]interface{}{
			"states":                        states,
			"transitions":                   transitions,
			"traces_validated_against_impl": replays,
			"samples":                       samples,
			"exhaustive":                    len(inconclusive) == 0,
			"explanation":                   "states = feasible symbolic paths explored through the real SSA of /repo; transitions = solver-decided branch/choice decisions; each assertion on each path is an SMT query over all input values within the bounds",
			"technique":                     "bounded symbolic execution of go/ssa of the current /repo tree into SMT-LIB2, decided by " + *solverKind,
			"functions_encoded":             fnames,
			"functions_encoded_count":       nf,
			"functions_encoded_hash":        fh,
			"queries":                       map[string]int{"assert_unsat": qU, "assert_sat": qS, "assert_unknown": qK, "branch_feasibility": bq},
			"solver_time_s":                 solverT,
			"package_load_s":                loadS,
			"harnesses":                     hsum,
			"inconclusive":                  inconclusive,
			"outside_claim":                 spec.OutsideClaim,
			"counterexamples":               vioOut,
			"shrink_overlays":               spec.Shrink,
			"shrink_sets":                   spec.ShrinkSets,
		},
	}
	eb, _ := json.MarshalIndent(ev, "", " ")
	os.WriteFile(filepath.Join(verifDir, "evidence", spec.Property+".json"), eb, 0o644)
	os.RemoveAll(workDir)
	fmt.Printf("SUMMARY property=%s tier=%s harnesses=%d paths=%d assert-queries unsat=%d sat=%d unknown=%d branch-queries=%d solver=%.1fs wall=%.1fs inconclusive=%d\n",
		spec.Property, *tier, len(reports), states, qU, qS, qK, bq, solverT, time.Since(t0).Seconds(), len(inconclusive))
	if exit == 1 {
		os.Exit(1)
	}
	if broken {
		os.Exit(2)
	}
	os.Exit(0)
}

func doReplayCmd(path string) int {
	if abs, err := filepath.Abs(path); err == nil {
		path = abs
	}
	b, err := os.ReadFile(path)
	if err != nil {
		fmt.Println("cannot read replay file:", err)
		return 2
	}
	var rf ReplayFile
	if err := json.Unmarshal(b, &rf); err != nil {
		fmt.Println("bad replay file:", err)
		return 2
	}
	sb, err := os.ReadFile(rf.Spec)
	if err != nil {
		sb, err = os.ReadFile(filepath.Join(verifDir, rf.Spec))
	}
	if err != nil {
		fmt.Println("cannot read spec:", err)
		return 2
	}
	var spec Spec
	json.Unmarshal(sb, &spec)
	workDir := filepath.Join(verifDir, "work", "replay-"+strconv.Itoa(os.Getpid()))
	os.MkdirAll(workDir, 0o755)
	defer os.RemoveAll(workDir)
	rspec := &spec
	for _, h := range spec.Harnesses {
		if h.Name == rf.Harness {
			rspec = specFor(&spec, h.ShrinkSet)
		}
	}
	res, out, err := nativeReplay(rspec, &rf, path, workDir)
	if err != nil {
		fmt.Println("replay error:", err)
		return 2
	}
	fmt.Print(out)
	for id, r := range res {
		if strings.HasPrefix(r, "VIOLATION") {
			fmt.Printf("VIOLATION property=%s replay=%s (case %s: %s)\n", rf.Property, path, id, r)
			return 1
		}
	}
	return 0
}
