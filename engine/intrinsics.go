package main

import (
	"fmt"
	"go/token"
	"go/types"
	"math"
	"sort"
	"strconv"
	"strings"

	"golang.org/x/tools/go/ssa"
)

type intrinsic func(it *Interp, fn *ssa.Function, args []Value) Value

const zzPath = "github.com/EliCDavis/polyform/zzverif"

func (it *Interp) lookupIntrinsic(fn *ssa.Function) intrinsic {
	name := fn.String()
	if o := fn.Origin(); o != nil {
		name = o.String()
	}
	if h, ok := it.intrTab[name]; ok {
		return h
	}
	return nil
}

func cstr(it *Interp, v Value) string {
	s, ok := v.(string)
	if !ok {
		it.outside("symbolic string where a concrete one is required")
	}
	return s
}

func cint(it *Interp, v Value) int {
	t := v.(*Term)
	if !t.IsConst() {
		return int(it.concretize(t))
	}
	return int(t.SInt64())
}

func (it *Interp) newInput(name string, s Sort, meta string) *Term {
	v := it.tb.Var(name, s)
	for _, x := range it.inputs {
		if x == v {
			return v
		}
	}
	it.inputs = append(it.inputs, v)
	it.inputMeta[name] = meta
	return v
}

// extendModel gives a freshly created input a value in the cached model so that the model stays usable.
func (it *Interp) extendModel(v *Term, val *Term) {
	if it.model != nil && val != nil && val.IsConst() && it.model[v.Name] == nil {
		it.model[v.Name] = val
		delete(it.modelMemo, v)
	}
}

func (it *Interp) errorStringType() types.Type {
	pkg := it.prog.ImportedPackage("errors")
	if pkg == nil {
		it.outside("package errors not loaded")
	}
	return types.NewPointer(pkg.Type("errorString").Type())
}

func (it *Interp) newError(msg string) Value {
	t := it.errorStringType()
	o := it.newObject(&StructV{F: []Value{msg}}, t.(*types.Pointer).Elem())
	return Iface{T: t, V: Ptr{Obj: o}}
}

// goValue converts an interpreted value into a native Go value for formatting.
func (it *Interp) goValue(v Value, t types.Type) interface{} {
	switch x := v.(type) {
	case Iface:
		if x.T == nil {
			return nil
		}
		// error / Stringer
		if m := it.findMethod(x.T, nil, "Error"); m != nil && m.Signature.Params().Len() == 0 {
			r := it.call(m, []Value{x.V}, nil)
			if s, ok := r.(string); ok {
				return fmtErr(s)
			}
			return fmtErr("<sym error>")
		}
		if m := it.findMethod(x.T, nil, "String"); m != nil && m.Signature.Params().Len() == 0 && m.Signature.Results().Len() == 1 {
			r := it.call(m, []Value{x.V}, nil)
			if s, ok := r.(string); ok {
				return fmtStr(s)
			}
			return fmtStr("<sym>")
		}
		return it.goValue(x.V, x.T)
	case string:
		return x
	case *SymStr:
		return "<symstr>"
	case *Term:
		if !x.IsConst() {
			return fmtStr("<sym>")
		}
		switch x.S.K {
		case SBool:
			return x.B
		case SBV, SInt:
			if t != nil && !isSigned(t) {
				return x.U
			}
			return x.SInt64()
		default:
			if t != nil {
				if b, ok := t.Underlying().(*types.Basic); ok && b.Kind() == types.Float32 {
					return float32(x.F)
				}
			}
			return x.F
		}
	case *StructV:
		parts := []string{}
		st, _ := t.Underlying().(*types.Struct)
		for i, f := range x.F {
			var ft types.Type
			if st != nil {
				ft = st.Field(i).Type()
			}
			parts = append(parts, fmt.Sprint(it.goValue(f, ft)))
		}
		return fmtStr("{" + strings.Join(parts, " ") + "}")
	case SliceV:
		parts := []string{}
		var et types.Type
		if t != nil {
			if st, ok := t.Underlying().(*types.Slice); ok {
				et = st.Elem()
			}
		}
		for i := 0; i < x.Len; i++ {
			parts = append(parts, fmt.Sprint(it.goValue(it.sliceGet(x, i), et)))
		}
		return fmtStr("[" + strings.Join(parts, " ") + "]")
	case Ptr:
		if x.Obj == nil {
			return fmtStr("<nil>")
		}
		return fmtStr(fmt.Sprintf("0xc%06d", x.Obj.ID))
	case nil:
		return nil
	}
	return fmtStr(fmt.Sprintf("<%T>", v))
}

type fmtErr string

func (e fmtErr) Error() string { return string(e) }

type fmtStr string

func (s fmtStr) String() string { return string(s) }
func (s fmtStr) Format(f fmt.State, verb rune) {
	f.Write([]byte(string(s)))
}

func (it *Interp) goArgs(sl Value) []interface{} {
	s := sl.(SliceV)
	out := make([]interface{}, s.Len)
	for i := range out {
		out[i] = it.goValue(it.sliceGet(s, i), nil)
	}
	return out
}

// writeTo calls w.Write(p) on an interpreted io.Writer with the given string content.
func (it *Interp) writeString(w Value, s Value) Value {
	ifc := w.(Iface)
	if ifc.T == nil {
		it.runtimePanic("invalid memory address or nil pointer dereference (nil io.Writer)")
	}
	m := it.findMethod(ifc.T, nil, "Write")
	if m == nil {
		it.outside("no Write method on %s", ifc.T)
	}
	bt := types.NewSlice(types.Typ[types.Byte])
	bytes := it.stringToBytes(s, bt)
	return it.call(m, []Value{ifc.V, bytes}, nil)
}

func (it *Interp) anySymbolic(sl Value) bool {
	s := sl.(SliceV)
	for i := 0; i < s.Len; i++ {
		v := it.sliceGet(s, i)
		if ifc, ok := v.(Iface); ok {
			switch x := ifc.V.(type) {
			case *Term:
				if !x.IsConst() {
					return true
				}
			case *SymStr:
				return true
			}
		}
	}
	return false
}

// symSprintf formats with symbolic arguments into a cell string (numeric tokens for %d/%v ints and lossless floats).
func (it *Interp) symSprintf(format string, sl Value) Value {
	s := sl.(SliceV)
	var cells []Cell
	addStr := func(x string) {
		for i := 0; i < len(x); i++ {
			cells = append(cells, Cell{B: it.byteTerm(x[i])})
		}
	}
	ai := 0
	for i := 0; i < len(format); i++ {
		c := format[i]
		if c != '%' {
			addStr(string(c))
			continue
		}
		j := i + 1
		for j < len(format) && strings.IndexByte("+-# 0123456789.", format[j]) >= 0 {
			j++
		}
		if j >= len(format) {
			break
		}
		verb := format[j]
		spec := format[i : j+1]
		i = j
		if verb == '%' {
			addStr("%")
			continue
		}
		if ai >= s.Len {
			addStr("%!" + string(verb) + "(MISSING)")
			continue
		}
		arg := it.sliceGet(s, ai).(Iface)
		ai++
		switch x := arg.V.(type) {
		case *Term:
			if x.IsConst() {
				addStr(fmt.Sprintf(spec, it.goValue(x, arg.T)))
				continue
			}
			if isInteger(arg.T) && (verb == 'd' || verb == 'v') && len(spec) == 2 {
				cells = append(cells, Cell{Tok: "dec", T: x})
				continue
			}
			if isFloat(arg.T) && (verb == 'v' || verb == 'g') && len(spec) == 2 {
				cells = append(cells, Cell{Tok: "flt", T: x})
				continue
			}
			it.outside("formatting of a symbolic value with %q is not lossless", spec)
		case *SymStr:
			if verb == 's' || verb == 'v' {
				cells = append(cells, x.C...)
				continue
			}
			it.outside("formatting symbolic string with %q", spec)
		default:
			addStr(fmt.Sprintf(spec, it.goValue(arg, nil)))
		}
	}
	return it.normStr(&SymStr{C: cells})
}

func (it *Interp) sprintf(format string, sl Value) Value {
	if it.anySymbolic(sl) {
		return it.symSprintf(format, sl)
	}
	return fmt.Sprintf(format, it.goArgs(sl)...)
}

func (it *Interp) sprint(sl Value, ln bool) Value {
	if it.anySymbolic(sl) {
		s := sl.(SliceV)
		f := ""
		for i := 0; i < s.Len; i++ {
			if i > 0 && ln {
				f += " "
			}
			f += "%v"
		}
		if ln {
			f += "\n"
		}
		return it.symSprintf(f, sl)
	}
	if ln {
		return fmt.Sprintln(it.goArgs(sl)...)
	}
	return fmt.Sprint(it.goArgs(sl)...)
}

func boolT(it *Interp, b bool) *Term { return it.tb.BoolC(b) }

func (it *Interp) f64(f float64) *Term {
	if it.mode == Math {
		return it.tb.RealC(f)
	}
	return it.tb.FPC(64, f)
}

// fun1 wraps a float64->float64 native function usable on concrete arguments only.
func nativeF1(name string, f func(float64) float64) intrinsic {
	return func(it *Interp, fn *ssa.Function, args []Value) Value {
		x := args[0].(*Term)
		if !x.IsConst() {
			it.outside("math.%s of a symbolic argument", name)
		}
		r := f(x.F)
		if it.mode == Math && (math.IsNaN(r) || math.IsInf(r, 0)) {
			it.outside("math.%s produced NaN/Inf in math mode", name)
		}
		return it.f64(r)
	}
}

func (it *Interp) minmax(a, b *Term, isMin bool) Value {
	var c *Term
	if isMin {
		c = it.tb.Cmp(token.LSS, a, b, true)
	} else {
		c = it.tb.Cmp(token.GTR, a, b, true)
	}
	if it.mode == Bits && !(a.IsConst() && b.IsConst()) {
		// NaN propagation of math.Min/Max: stated assumption non-NaN for symbolic data
		nan := it.tb.Or(it.tb.FUn("isnan", a), it.tb.FUn("isnan", b))
		r := it.tb.Ite(c, a, b)
		return it.tb.Ite(nan, it.tb.FPC(a.S.W, math.NaN()), r)
	}
	if a.IsConst() && b.IsConst() {
		if isMin {
			return it.f64(math.Min(a.F, b.F))
		}
		return it.f64(math.Max(a.F, b.F))
	}
	return it.selectVal(c, a, b)
}

func (it *Interp) sinCos(x *Term) (*Term, *Term) {
	if x.IsConst() {
		return it.f64(math.Sin(x.F)), it.f64(math.Cos(x.F))
	}
	if it.mode != Math {
		it.outside("sin/cos of a symbolic angle in bits mode")
	}
	tb := it.tb
	s := tb.SideVar(fmt.Sprintf("$sin%d", x.ID), RealSort, func(v *Term) *Term {
		return tb.And(tb.Cmp(token.LEQ, v, tb.RealC(1), true), tb.Cmp(token.GEQ, v, tb.RealC(-1), true))
	})
	c := tb.SideVar(fmt.Sprintf("$cos%d", x.ID), RealSort, func(v *Term) *Term {
		return tb.Eq(tb.Arith(token.ADD, tb.Arith(token.MUL, v, v, true), tb.Arith(token.MUL, s, s, true), true), tb.RealC(1))
	})
	return s, c
}

func (it *Interp) setupIntrinsics() {
	T := map[string]intrinsic{}
	it.intrTab = T
	zz := func(n string) string { return zzPath + "." + n }

	// ----- harness API -----
	T[zz("Int")] = func(it *Interp, fn *ssa.Function, a []Value) Value {
		name := cstr(it, a[0])
		lo, hi := a[1].(*Term), a[2].(*Term)
		v := it.newInput(name, it.intSort(64), "int")
		if it.model != nil {
			it.extendModel(v, it.tb.Eval(lo, it.model, it.modelMemo))
		}
		it.addPC(it.tb.Cmp(token.GEQ, v, lo, true))
		it.addPC(it.tb.Cmp(token.LEQ, v, hi, true))
		if l0, _, ok1 := it.bounds(lo); ok1 {
			if _, h1, ok2 := it.bounds(hi); ok2 {
				it.varRange[v] = [2]int64{l0, h1}
				delete(it.ivMemo, v)
			}
		}
		return v
	}
	T[zz("AnyInt")] = func(it *Interp, fn *ssa.Function, a []Value) Value {
		v := it.newInput(cstr(it, a[0]), it.intSort(64), "int")
		if it.mode == Math {
			it.addPC(it.tb.Cmp(token.GEQ, v, it.tb.IntC(math.MinInt64), true))
			it.addPC(it.tb.Cmp(token.LEQ, v, it.tb.IntC(math.MaxInt64), true))
		}
		return v
	}
	T[zz("Choose")] = func(it *Interp, fn *ssa.Function, a []Value) Value {
		name := cstr(it, a[0])
		n := a[1].(*Term)
		v := it.newInput(name, it.intSort(64), "int")
		if n.IsConst() {
			// enumerate the choices directly (no solver needed): every value in [0,n) is feasible
			if n.SInt64() <= 0 {
				panic(pathEnd{"killed", "choose from an empty set"})
			}
			k := it.choose(int(n.SInt64()))
			// the chosen value is recorded for models/replay but not sent to the solver: an Int equality
			// would turn pure real-arithmetic queries into mixed Int/Real ones (z3 then leaves nlsat)
			it.fixed[v.Name] = it.mkInt(k)
			return it.mkInt(k)
		}
		it.extendModel(v, it.mkInt(0))
		it.addPC(it.tb.Cmp(token.GEQ, v, it.mkInt(0), true))
		it.addPC(it.tb.Cmp(token.LSS, v, n, true))
		return it.mkInt(int(it.concretize(v)))
	}
	T[zz("Concrete")] = func(it *Interp, fn *ssa.Function, a []Value) Value {
		return it.mkInt(int(it.concretize(a[0].(*Term))))
	}
	T[zz("Bool")] = func(it *Interp, fn *ssa.Function, a []Value) Value {
		v := it.newInput(cstr(it, a[0]), BoolSort, "bool")
		it.extendModel(v, it.tb.False)
		return v
	}
	T[zz("Byte")] = func(it *Interp, fn *ssa.Function, a []Value) Value {
		v := it.newInput(cstr(it, a[0]), it.intSort(8), "byte")
		it.extendModel(v, it.byteTerm(0))
		if it.mode == Math {
			it.addPC(it.tb.Cmp(token.GEQ, v, it.tb.IntC(0), true))
			it.addPC(it.tb.Cmp(token.LEQ, v, it.tb.IntC(255), true))
		}
		return v
	}
	T[zz("Bytes")] = func(it *Interp, fn *ssa.Function, a []Value) Value {
		name := cstr(it, a[0])
		n := cint(it, a[1])
		sl := it.makeSlice(types.Typ[types.Byte], n, n)
		for i := 0; i < n; i++ {
			v := it.newInput(fmt.Sprintf("%s[%d]", name, i), it.intSort(8), "byte")
			it.extendModel(v, it.byteTerm(0))
			if it.mode == Math {
				it.addPC(it.tb.Cmp(token.GEQ, v, it.tb.IntC(0), true))
				it.addPC(it.tb.Cmp(token.LEQ, v, it.tb.IntC(255), true))
			}
			setChild(sl.Arr.Obj.V, i, v)
		}
		return sl
	}
	mkFloat := func(w int, finite bool) intrinsic {
		return func(it *Interp, fn *ssa.Function, a []Value) Value {
			name := cstr(it, a[0])
			if it.mode == Math {
				v := it.newInput(name, RealSort, "f64")
				it.extendModel(v, it.tb.RealC(0))
				lim := it.tb.RealC(it.cfg.RealLimit)
				it.addPC(it.tb.Cmp(token.LEQ, v, lim, true))
				it.addPC(it.tb.Cmp(token.GEQ, v, it.tb.Neg(lim), true))
				it.setRealRange(v, ratOf(-it.cfg.RealLimit), ratOf(it.cfg.RealLimit))
				return v
			}
			meta := "f64"
			if w == 32 {
				meta = "f32"
			}
			v := it.newInput(name, Sort{SFP, w}, meta)
			it.extendModel(v, it.tb.FPC(w, 0))
			if finite {
				it.addPC(it.tb.Not(it.tb.FUn("isnan", v)))
				it.addPC(it.tb.Not(it.tb.FUn("isinf", v)))
			}
			return v
		}
	}
	T[zz("Float64")] = mkFloat(64, true)
	T[zz("Float32")] = mkFloat(32, true)
	T[zz("AnyFloat64")] = mkFloat(64, false)
	T[zz("Assume")] = func(it *Interp, fn *ssa.Function, a []Value) Value {
		c := a[0].(*Term)
		if v, ok := it.lookupKnown(c); ok {
			if !v {
				panic(pathEnd{"killed", "assume(false)"})
			}
			return nil
		}
		it.addPC(c)
		return nil
	}
	T[zz("Assert")] = func(it *Interp, fn *ssa.Function, a []Value) Value {
		it.assert(a[0].(*Term), cstr(it, a[1]))
		return nil
	}
	T[zz("AssertNear")] = func(it *Interp, fn *ssa.Function, a []Value) Value {
		x, y := a[0].(*Term), a[1].(*Term)
		label := cstr(it, a[2])
		tb := it.tb
		it.poisonGuard(x, "an assertion")
		it.poisonGuard(y, "an assertion")
		if it.mode == Math {
			// exact real equality first (polynomial identities are decided by normalisation)
			if x == y {
				return nil
			}
			if it.nearDecide(x, y) {
				it.rep.AssertsSeen[label]++
				it.rep.AssertSyntactic++
				return nil
			}
			if it.quietCheck(tb.Not(tb.Eq(x, y))) == Unsat {
				it.rep.AssertsSeen[label]++
				it.rep.AssertQ[Unsat]++
				return nil
			}
			it.assertNearSplit(x, y, label)
		} else {
			it.assert(tb.Or(tb.Eq(x, y), tb.And(tb.FUn("isnan", x), tb.FUn("isnan", y))), label)
		}
		return nil
	}
	T[zz("Reach")] = func(it *Interp, fn *ssa.Function, a []Value) Value {
		label := cstr(it, a[0])
		if !it.rep.Reached[label] {
			if it.check() == Sat {
				it.rep.Reached[label] = true
			}
		}
		return nil
	}
	T[zz("Observe")] = func(it *Interp, fn *ssa.Function, a []Value) Value {
		return nil
	}
	T[zz("Bound")] = func(it *Interp, fn *ssa.Function, a []Value) Value {
		name := cstr(it, a[0])
		v, ok := it.cfg.Bounds[name]
		if !ok {
			it.outside("bound %q is not defined in the check specification", name)
		}
		return it.mkInt(v)
	}
	T[zz("IsMath")] = func(it *Interp, fn *ssa.Function, a []Value) Value { return it.tb.BoolC(it.mode == Math) }
	T[zz("Symbolic")] = func(it *Interp, fn *ssa.Function, a []Value) Value { return it.tb.True }
	T[zz("WithSpare")] = func(it *Interp, fn *ssa.Function, a []Value) Value {
		name := cstr(it, a[0])
		s := a[1].(SliceV)
		mx := cint(it, a[2])
		v := it.newInput(name, it.intSort(64), "int")
		it.addPC(it.tb.Cmp(token.GEQ, v, it.mkInt(0), true))
		it.addPC(it.tb.Cmp(token.LEQ, v, it.mkInt(mx), true))
		spare := int(it.concretize(v))
		et := fn.Signature.Params().At(1).Type().Underlying().(*types.Slice).Elem()
		ns := it.makeSlice(et, s.Len, s.Len+spare)
		for i := 0; i < s.Len; i++ {
			setChild(ns.Arr.Obj.V, i, it.sliceGet(s, i))
		}
		return ns
	}
	T[zz("Or")] = func(it *Interp, fn *ssa.Function, a []Value) Value { return it.tb.Or(a[0].(*Term), a[1].(*Term)) }
	T[zz("And")] = func(it *Interp, fn *ssa.Function, a []Value) Value { return it.tb.And(a[0].(*Term), a[1].(*Term)) }
	T[zz("Implies")] = func(it *Interp, fn *ssa.Function, a []Value) Value {
		return it.tb.Implies(a[0].(*Term), a[1].(*Term))
	}
	iteFn := func(it *Interp, fn *ssa.Function, a []Value) Value {
		return it.tb.Ite(a[0].(*Term), a[1].(*Term), a[2].(*Term))
	}
	T[zz("IteInt")] = iteFn
	T[zz("IteF")] = iteFn
	T[zz("IteU64")] = iteFn
	T[zz("HalfToFloat64")] = func(it *Interp, fn *ssa.Function, a []Value) Value {
		if it.mode != Bits {
			it.outside("HalfToFloat64 in math mode")
		}
		return it.tb.HalfToFloat64(a[0].(*Term))
	}
	T[zz("Note")] = func(it *Interp, fn *ssa.Function, a []Value) Value {
		it.pathNotes = append(it.pathNotes, cstr(it, a[0]))
		return nil
	}

	// ----- math -----
	un := func(op string) intrinsic {
		return func(it *Interp, fn *ssa.Function, a []Value) Value { return it.tb.FUn(op, a[0].(*Term)) }
	}
	T["math.Abs"] = func(it *Interp, fn *ssa.Function, a []Value) Value {
		x := a[0].(*Term)
		if it.mode == Math && !x.IsConst() && !it.cfg.MinMaxIte {
			if it.decide(it.tb.Cmp(token.GEQ, x, it.tb.RealC(0), true)) {
				return x
			}
			return it.tb.Neg(x)
		}
		return it.tb.FUn("abs", x)
	}
	T["math.Floor"] = un("floor")
	T["math.Ceil"] = un("ceil")
	T["math.Trunc"] = un("trunc")
	T["math.Round"] = un("roundaway")
	T["math.IsNaN"] = un("isnan")
	T["math.IsInf"] = func(it *Interp, fn *ssa.Function, a []Value) Value {
		x, sign := a[0].(*Term), a[1].(*Term)
		if it.mode == Math {
			return it.tb.False
		}
		inf := it.tb.FUn("isinf", x)
		if sign.IsConst() {
			s := sign.SInt64()
			switch {
			case s > 0:
				return it.tb.And(inf, it.tb.Cmp(token.GTR, x, it.tb.FPC(64, 0), true))
			case s < 0:
				return it.tb.And(inf, it.tb.Cmp(token.LSS, x, it.tb.FPC(64, 0), true))
			}
			return inf
		}
		it.outside("math.IsInf with symbolic sign")
		return nil
	}
	T["math.Sqrt"] = func(it *Interp, fn *ssa.Function, a []Value) Value {
		x := a[0].(*Term)
		if it.mode == Math && !x.IsConst() {
			if it.decide(it.tb.Cmp(token.LSS, x, it.tb.RealC(0), true)) {
				it.outside("sqrt of a negative number in math mode (NaN)")
			}
		}
		if it.mode == Math && x.IsConst() {
			if x.F < 0 {
				it.outside("sqrt of a negative number in math mode (NaN)")
			}
			r := math.Sqrt(x.F)
			if r*r == x.F {
				return it.tb.RealC(r)
			}
			// irrational: keep exact through a side variable
		}
		return it.tb.FUn("sqrt", x)
	}
	T["math.Min"] = func(it *Interp, fn *ssa.Function, a []Value) Value {
		return it.minmax(a[0].(*Term), a[1].(*Term), true)
	}
	T["math.Max"] = func(it *Interp, fn *ssa.Function, a []Value) Value {
		return it.minmax(a[0].(*Term), a[1].(*Term), false)
	}
	T["math.Inf"] = func(it *Interp, fn *ssa.Function, a []Value) Value {
		s := a[0].(*Term)
		if !s.IsConst() {
			it.outside("math.Inf symbolic sign")
		}
		if it.mode == Math {
			if s.SInt64() >= 0 {
				return it.tb.RealC(math.Ldexp(1, 1023) * 1.9999)
			}
			return it.tb.RealC(-math.Ldexp(1, 1023) * 1.9999)
		}
		return it.tb.FPC(64, math.Inf(int(s.SInt64())))
	}
	T["math.NaN"] = func(it *Interp, fn *ssa.Function, a []Value) Value {
		if it.mode == Math {
			it.outside("math.NaN in math mode")
		}
		return it.tb.FPC(64, math.NaN())
	}
	T["math.Float32bits"] = func(it *Interp, fn *ssa.Function, a []Value) Value { return it.tb.FloatBits(a[0].(*Term)) }
	T["math.Float64bits"] = func(it *Interp, fn *ssa.Function, a []Value) Value { return it.tb.FloatBits(a[0].(*Term)) }
	T["math.Float32frombits"] = func(it *Interp, fn *ssa.Function, a []Value) Value {
		if it.mode == Math {
			it.outside("Float32frombits in math mode")
		}
		return it.tb.FloatFromBits(a[0].(*Term))
	}
	T["math.Float64frombits"] = T["math.Float32frombits"]
	T["math.Sin"] = func(it *Interp, fn *ssa.Function, a []Value) Value { s, _ := it.sinCos(a[0].(*Term)); return s }
	T["math.Cos"] = func(it *Interp, fn *ssa.Function, a []Value) Value { _, c := it.sinCos(a[0].(*Term)); return c }
	T["math.Sincos"] = func(it *Interp, fn *ssa.Function, a []Value) Value {
		s, c := it.sinCos(a[0].(*Term))
		return Tuple{s, c}
	}
	T["math.Tan"] = nativeF1("Tan", math.Tan)
	T["math.Acos"] = nativeF1("Acos", math.Acos)
	T["math.Asin"] = nativeF1("Asin", math.Asin)
	T["math.Atan"] = nativeF1("Atan", math.Atan)
	T["math.Log2"] = nativeF1("Log2", math.Log2)
	T["math.Log10"] = nativeF1("Log10", math.Log10)
	T["math.Exp"] = func(it *Interp, fn *ssa.Function, a []Value) Value {
		x := a[0].(*Term)
		if x.IsConst() {
			return it.f64(math.Exp(x.F))
		}
		if it.mode != Math {
			// bits mode: exp is outside the solvers. Contract stub (part of the claim): the result is some float64
			// that is not NaN and not negative, bracketed by a table of values of the monotone function with a
			// relative slack of 1e-9 - enough to tell "saturated" arguments from ordinary ones, so that
			// counterexamples replay against the real math.Exp.
			tb := it.tb
			s64 := Sort{SFP, 64}
			return tb.SideVar(fmt.Sprintf("$fexp%d", x.ID), s64, func(v *Term) *Term {
				c := tb.AndN(tb.Not(tb.FUn("isnan", v)), tb.Cmp(token.GEQ, v, tb.FPC(64, 0), true))
				for _, t := range []float64{-745.2, -700, -100, -40, -38, -37, -36.8, -36, -30, -20, -10, -5, -2, -1, 0, 1, 2, 5, 10, 20, 40, 100, 700, 709.7} {
					e := math.Exp(t)
					c = tb.And(c, tb.Implies(tb.Cmp(token.LEQ, x, tb.FPC(64, t), true), tb.Cmp(token.LEQ, v, tb.FPC(64, e*(1+1e-9)), true)))
					c = tb.And(c, tb.Implies(tb.Cmp(token.GEQ, x, tb.FPC(64, t), true), tb.Cmp(token.GEQ, v, tb.FPC(64, e*(1-1e-9)), true)))
				}
				return c
			})
		}
		tb := it.tb
		v := tb.SideVar(fmt.Sprintf("$exp%d", x.ID), RealSort, func(v *Term) *Term {
			return tb.Cmp(token.GTR, v, tb.RealC(0), true)
		})
		it.rep.expInv[v] = x
		return v
	}
	T["math.Log"] = func(it *Interp, fn *ssa.Function, a []Value) Value {
		x := a[0].(*Term)
		if x.IsConst() {
			return it.f64(math.Log(x.F))
		}
		if it.mode != Math {
			it.outside("math.Log of a symbolic argument in bits mode")
		}
		if inv, ok := it.rep.expInv[x]; ok {
			return inv
		}
		tb := it.tb
		v := tb.Var(fmt.Sprintf("$log%d", x.ID), RealSort)
		return v
	}
	T["math.Pow"] = func(it *Interp, fn *ssa.Function, a []Value) Value {
		x, y := a[0].(*Term), a[1].(*Term)
		if x.IsConst() && y.IsConst() {
			return it.f64(math.Pow(x.F, y.F))
		}
		if y.IsConst() && y.F == math.Trunc(y.F) && y.F >= 0 && y.F <= 8 {
			r := it.f64(1)
			for i := 0; i < int(y.F); i++ {
				r = it.tb.Arith(token.MUL, r, x, true)
			}
			if it.mode == Bits && y.F > 2 {
				it.outside("math.Pow with symbolic base in bits mode")
			}
			return r
		}
		// symbolic exponent (or base) that takes few values: concretise by forking
		xv, yv := it.concretizeFloat(x), it.concretizeFloat(y)
		return it.f64(math.Pow(xv, yv))
	}
	T["math.Atan2"] = func(it *Interp, fn *ssa.Function, a []Value) Value {
		x, y := a[0].(*Term), a[1].(*Term)
		if x.IsConst() && y.IsConst() {
			return it.f64(math.Atan2(x.F, y.F))
		}
		it.outside("math.Atan2 of symbolic arguments")
		return nil
	}
	T["math.Mod"] = func(it *Interp, fn *ssa.Function, a []Value) Value {
		x, y := a[0].(*Term), a[1].(*Term)
		if x.IsConst() && y.IsConst() {
			return it.f64(math.Mod(x.F, y.F))
		}
		it.outside("math.Mod of symbolic arguments")
		return nil
	}
	T["math.Pow10"] = func(it *Interp, fn *ssa.Function, a []Value) Value {
		return it.f64(math.Pow10(cint(it, a[0])))
	}
	T["math.Signbit"] = func(it *Interp, fn *ssa.Function, a []Value) Value {
		x := a[0].(*Term)
		if x.IsConst() {
			return it.tb.BoolC(math.Signbit(x.F))
		}
		if it.mode == Math {
			return it.tb.Cmp(token.LSS, x, it.tb.RealC(0), true)
		}
		return it.tb.Eq(it.tb.Extract(it.tb.FloatBits(x), 63, 63), it.tb.BVC(1, 1))
	}
	T["math.Hypot"] = func(it *Interp, fn *ssa.Function, a []Value) Value {
		x, y := a[0].(*Term), a[1].(*Term)
		if x.IsConst() && y.IsConst() {
			return it.f64(math.Hypot(x.F, y.F))
		}
		s := it.tb.Arith(token.ADD, it.tb.Arith(token.MUL, x, x, true), it.tb.Arith(token.MUL, y, y, true), true)
		return it.tb.FUn("sqrt", s)
	}

	// ----- runtime / sync -----
	// math/rand: every outcome of a draw is explored (natively the harness searches seeds)
	T["math/rand.Intn"] = func(it *Interp, fn *ssa.Function, a []Value) Value {
		n := cint(it, a[0])
		if n <= 0 {
			panic(&goPanic{msg: "invalid argument to Intn"})
		}
		return it.mkInt(it.choose(n))
	}
	T["math/rand.Seed"] = func(it *Interp, fn *ssa.Function, a []Value) Value { return nil }
	T["runtime.NumCPU"] = func(it *Interp, fn *ssa.Function, a []Value) Value {
		lo, hi := it.cfg.Bounds["NumCPUMin"], it.cfg.Bounds["NumCPUMax"]
		if hi == 0 {
			lo, hi = 2, 2
		}
		if t, ok := it.fixed["$NumCPU"]; ok { // one machine per path: every call returns the same count
			return t
		}
		v := it.newInput("$NumCPU", it.intSort(64), "int")
		it.addPC(it.tb.Cmp(token.GEQ, v, it.mkInt(lo), true))
		it.addPC(it.tb.Cmp(token.LEQ, v, it.mkInt(hi), true))
		k := it.mkInt(int(it.concretize(v)))
		it.fixed["$NumCPU"] = k
		return k
	}
	T["runtime.Gosched"] = func(it *Interp, fn *ssa.Function, a []Value) Value { it.schedPoint(); return nil }
	T["runtime.GOMAXPROCS"] = func(it *Interp, fn *ssa.Function, a []Value) Value { return it.mkInt(2) }
	T["(*sync.WaitGroup).Add"] = func(it *Interp, fn *ssa.Function, a []Value) Value {
		it.wgAdd(a[0].(Ptr), cint(it, a[1]))
		return nil
	}
	T["(*sync.WaitGroup).Done"] = func(it *Interp, fn *ssa.Function, a []Value) Value { it.wgAdd(a[0].(Ptr), -1); return nil }
	T["(*sync.WaitGroup).Wait"] = func(it *Interp, fn *ssa.Function, a []Value) Value { it.wgWait(a[0].(Ptr)); return nil }
	T["(*sync.Mutex).Lock"] = func(it *Interp, fn *ssa.Function, a []Value) Value { it.mutexLock(a[0].(Ptr)); return nil }
	T["(*sync.Mutex).Unlock"] = func(it *Interp, fn *ssa.Function, a []Value) Value { it.mutexUnlock(a[0].(Ptr)); return nil }
	T["(*sync.RWMutex).Lock"] = T["(*sync.Mutex).Lock"]
	T["(*sync.RWMutex).Unlock"] = T["(*sync.Mutex).Unlock"]
	T["(*sync.RWMutex).RLock"] = func(it *Interp, fn *ssa.Function, a []Value) Value { it.rlock(a[0].(Ptr)); return nil }
	T["(*sync.RWMutex).RUnlock"] = func(it *Interp, fn *ssa.Function, a []Value) Value { it.runlock(a[0].(Ptr)); return nil }
	T["(*sync.Once).Do"] = func(it *Interp, fn *ssa.Function, a []Value) Value {
		s := it.syncObj(a[0].(Ptr))
		if !s.onceRan {
			s.onceRan = true
			it.callValue(a[1], nil, nil)
			it.release(s)
		} else {
			it.acquire(s)
		}
		return nil
	}

	// ----- fmt / errors / log -----
	T["fmt.Sprintf"] = func(it *Interp, fn *ssa.Function, a []Value) Value { return it.sprintf(cstr(it, a[0]), a[1]) }
	T["fmt.Sprint"] = func(it *Interp, fn *ssa.Function, a []Value) Value { return it.sprint(a[0], false) }
	T["fmt.Sprintln"] = func(it *Interp, fn *ssa.Function, a []Value) Value { return it.sprint(a[0], true) }
	T["fmt.Errorf"] = func(it *Interp, fn *ssa.Function, a []Value) Value {
		format := cstr(it, a[0])
		var msg string
		if it.anySymbolic(a[1]) {
			msg = strings.ReplaceAll(format, "%", "%%")
		} else {
			msg = fmt.Sprintf(format, it.goArgs(a[1])...)
		}
		e := it.newError(msg)
		// remember wrapped error (first error-typed argument) for errors.Is
		if strings.Contains(format, "%w") {
			s := a[1].(SliceV)
			for i := 0; i < s.Len; i++ {
				if ifc, ok := it.sliceGet(s, i).(Iface); ok && ifc.T != nil {
					if m := it.findMethod(ifc.T, nil, "Error"); m != nil {
						it.wrapped[e.(Iface).V.(Ptr).Obj] = ifc
						break
					}
				}
			}
		}
		return e
	}
	T["fmt.Fprintf"] = func(it *Interp, fn *ssa.Function, a []Value) Value {
		return it.writeString(a[0], it.sprintf(cstr(it, a[1]), a[2]))
	}
	T["fmt.Fprint"] = func(it *Interp, fn *ssa.Function, a []Value) Value {
		return it.writeString(a[0], it.sprint(a[1], false))
	}
	T["fmt.Fprintln"] = func(it *Interp, fn *ssa.Function, a []Value) Value {
		return it.writeString(a[0], it.sprint(a[1], true))
	}
	noop2 := func(it *Interp, fn *ssa.Function, a []Value) Value {
		return Tuple{it.mkInt(0), Iface{}}
	}
	T["fmt.Printf"], T["fmt.Println"], T["fmt.Print"] = noop2, noop2, noop2
	noop := func(it *Interp, fn *ssa.Function, a []Value) Value { return nil }
	for _, n := range []string{"Print", "Printf", "Println"} {
		T["log."+n] = noop
	}
	T["errors.Is"] = func(it *Interp, fn *ssa.Function, a []Value) Value {
		e, target := a[0], a[1]
		for i := 0; i < 10; i++ {
			eq := it.valEq(e, target)
			if it.decide(eq) {
				return it.tb.True
			}
			ifc := e.(Iface)
			if ifc.T == nil {
				break
			}
			p, ok := ifc.V.(Ptr)
			if !ok || p.Obj == nil {
				break
			}
			w, ok := it.wrapped[p.Obj]
			if !ok {
				break
			}
			e = w
		}
		return it.tb.False
	}
	T["errors.Unwrap"] = func(it *Interp, fn *ssa.Function, a []Value) Value {
		if ifc, ok := a[0].(Iface); ok && ifc.T != nil {
			if p, ok := ifc.V.(Ptr); ok && p.Obj != nil {
				if w, ok := it.wrapped[p.Obj]; ok {
					return w
				}
			}
		}
		return Iface{}
	}

	// ----- strconv / strings on concrete data -----
	T["strconv.Itoa"] = func(it *Interp, fn *ssa.Function, a []Value) Value {
		x := a[0].(*Term)
		if !x.IsConst() {
			return &SymStr{C: []Cell{{Tok: "dec", T: x}}}
		}
		return strconv.Itoa(int(x.SInt64()))
	}
	T["strconv.FormatInt"] = func(it *Interp, fn *ssa.Function, a []Value) Value {
		x := a[0].(*Term)
		base := cint(it, a[1])
		if !x.IsConst() {
			if base != 10 {
				it.outside("FormatInt of symbolic value in base %d", base)
			}
			return &SymStr{C: []Cell{{Tok: "dec", T: x}}}
		}
		return strconv.FormatInt(x.SInt64(), base)
	}
	T["strconv.FormatFloat"] = func(it *Interp, fn *ssa.Function, a []Value) Value {
		x := a[0].(*Term)
		f := byte(cint(it, a[1]))
		prec := cint(it, a[2])
		bits := cint(it, a[3])
		if !x.IsConst() {
			if prec != -1 {
				it.outside("FormatFloat of a symbolic value with fixed precision %d is lossy", prec)
			}
			tok := "flt"
			if bits == 32 {
				tok = "flt32"
			}
			return &SymStr{C: []Cell{{Tok: tok, T: x}}}
		}
		return strconv.FormatFloat(x.F, f, prec, bits)
	}
	appendCells := func(it *Interp, dst Value, cells []Cell) Value {
		vals := make([]Value, len(cells))
		for i, c := range cells {
			vals[i] = it.cellToValue(c)
		}
		return it.appendValues(dst.(SliceV), types.Typ[types.Byte], vals)
	}
	strCells := func(it *Interp, s string) []Cell {
		c := make([]Cell, len(s))
		for i := 0; i < len(s); i++ {
			c[i] = Cell{B: it.byteTerm(s[i])}
		}
		return c
	}
	// numeric tokens: a symbolic number formatted in base 10 becomes one opaque cell dec(x) / flt(x); the
	// stdlib round-trip contract (Parse(Format(x)) = x) is what the readers rely on.
	T["strconv.AppendInt"] = func(it *Interp, fn *ssa.Function, a []Value) Value {
		x := a[1].(*Term)
		base := cint(it, a[2])
		if x.IsConst() {
			return appendCells(it, a[0], strCells(it, strconv.FormatInt(x.SInt64(), base)))
		}
		if base != 10 {
			it.outside("AppendInt of a symbolic value in base %d", base)
		}
		return appendCells(it, a[0], []Cell{{Tok: "dec", T: x}})
	}
	T["strconv.AppendFloat"] = func(it *Interp, fn *ssa.Function, a []Value) Value {
		x := a[1].(*Term)
		f := byte(cint(it, a[2]))
		prec := cint(it, a[3])
		bits := cint(it, a[4])
		if x.IsConst() {
			return appendCells(it, a[0], strCells(it, strconv.FormatFloat(x.F, f, prec, bits)))
		}
		if prec != -1 {
			it.outside("AppendFloat of a symbolic value with fixed precision %d is lossy", prec)
		}
		tok := "flt"
		if bits == 32 {
			tok = "flt32"
		}
		return appendCells(it, a[0], []Cell{{Tok: tok, T: x}})
	}
	T["strconv.Atoi"] = func(it *Interp, fn *ssa.Function, a []Value) Value {
		if s, ok := a[0].(*SymStr); ok {
			if len(s.C) == 1 && s.C[0].Tok == "dec" {
				return Tuple{s.C[0].T, Iface{}}
			}
			it.outside("Atoi of a symbolic string that is not a single dec token")
		}
		v, err := strconv.Atoi(a[0].(string))
		if err != nil {
			return Tuple{it.mkInt(0), it.newError(err.Error())}
		}
		return Tuple{it.mkInt(v), Iface{}}
	}
	T["strconv.ParseInt"] = func(it *Interp, fn *ssa.Function, a []Value) Value {
		if s, ok := a[0].(*SymStr); ok {
			if len(s.C) == 1 && s.C[0].Tok == "dec" {
				return Tuple{s.C[0].T, Iface{}}
			}
			it.outside("ParseInt of a symbolic string that is not a single dec token")
		}
		v, err := strconv.ParseInt(a[0].(string), cint(it, a[1]), cint(it, a[2]))
		if err != nil {
			return Tuple{it.intC(v, types.Typ[types.Int64]), it.newError(err.Error())}
		}
		return Tuple{it.intC(v, types.Typ[types.Int64]), Iface{}}
	}
	T["strconv.ParseUint"] = func(it *Interp, fn *ssa.Function, a []Value) Value {
		if s, ok := a[0].(*SymStr); ok {
			if len(s.C) == 1 && s.C[0].Tok == "dec" {
				// negative tokens are errors for ParseUint
				if it.decide(it.tb.Cmp(token.LSS, s.C[0].T, it.tb.Zero(s.C[0].T.S), true)) {
					return Tuple{it.intC(0, types.Typ[types.Uint64]), it.newError("strconv.ParseUint: invalid syntax")}
				}
				return Tuple{s.C[0].T, Iface{}}
			}
			it.outside("ParseUint of a symbolic string that is not a single dec token")
		}
		v, err := strconv.ParseUint(a[0].(string), cint(it, a[1]), cint(it, a[2]))
		if err != nil {
			return Tuple{it.intC(int64(v), types.Typ[types.Uint64]), it.newError(err.Error())}
		}
		return Tuple{it.intC(int64(v), types.Typ[types.Uint64]), Iface{}}
	}
	T["strconv.ParseFloat"] = func(it *Interp, fn *ssa.Function, a []Value) Value {
		bits := cint(it, a[1])
		if s, ok := a[0].(*SymStr); ok {
			if len(s.C) == 1 && (s.C[0].Tok == "flt" || s.C[0].Tok == "flt32" || s.C[0].Tok == "dec") {
				t := s.C[0].T
				if s.C[0].Tok == "dec" {
					t = it.tb.IntToFloat(t, true, 64, it.mode == Math)
				}
				if it.mode == Bits {
					if t.S.W == 32 {
						t = it.tb.FloatToFloat(t, 64)
					} else if bits == 32 {
						t = it.tb.FloatToFloat(it.tb.FloatToFloat(t, 32), 64)
					} else if s.C[0].Tok == "flt32" {
						// the shortest decimal text of a float32 parsed at 64 bits is some double that rounds to that
						// float32 (it need not be the float32 widened)
						f32 := it.tb.FloatToFloat(t, 32)
						t = it.tb.SideVar(fmt.Sprintf("$p64of32_%d", f32.ID), F64Sort, func(v *Term) *Term {
							return it.tb.Same(it.tb.FloatToFloat(v, 32), f32)
						})
					}
				}
				return Tuple{t, Iface{}}
			}
			it.outside("ParseFloat of a symbolic string that is not a single numeric token")
		}
		v, err := strconv.ParseFloat(a[0].(string), bits)
		if err != nil {
			return Tuple{it.f64(0), it.newError(err.Error())}
		}
		return Tuple{it.f64(v), Iface{}}
	}
	T["strconv.ParseBool"] = func(it *Interp, fn *ssa.Function, a []Value) Value {
		v, err := strconv.ParseBool(cstr(it, a[0]))
		if err != nil {
			return Tuple{it.tb.False, it.newError(err.Error())}
		}
		return Tuple{it.tb.BoolC(v), Iface{}}
	}
	T["strconv.Quote"] = func(it *Interp, fn *ssa.Function, a []Value) Value { return strconv.Quote(cstr(it, a[0])) }

	s1 := func(f func(string) string) intrinsic {
		return func(it *Interp, fn *ssa.Function, a []Value) Value { return f(cstr(it, a[0])) }
	}
	T["strings.ToLower"] = s1(strings.ToLower)
	T["strings.ToUpper"] = s1(strings.ToUpper)
	T["strings.TrimSpace"] = func(it *Interp, fn *ssa.Function, a []Value) Value {
		if s, ok := a[0].(*SymStr); ok {
			return it.symTrimSpace(s)
		}
		return strings.TrimSpace(a[0].(string))
	}
	T["strings.Fields"] = func(it *Interp, fn *ssa.Function, a []Value) Value {
		if s, ok := a[0].(*SymStr); ok {
			return it.stringSlice(it.symFields(s))
		}
		fs := strings.Fields(a[0].(string))
		vs := make([]Value, len(fs))
		for i, f := range fs {
			vs[i] = f
		}
		return it.stringSlice(vs)
	}
	T["strings.Split"] = func(it *Interp, fn *ssa.Function, a []Value) Value {
		sep := cstr(it, a[1])
		if s, ok := a[0].(*SymStr); ok {
			return it.stringSlice(it.symSplit(s, sep))
		}
		fs := strings.Split(a[0].(string), sep)
		vs := make([]Value, len(fs))
		for i, f := range fs {
			vs[i] = f
		}
		return it.stringSlice(vs)
	}
	s2b := func(f func(string, string) bool) intrinsic {
		return func(it *Interp, fn *ssa.Function, a []Value) Value {
			return it.tb.BoolC(f(cstr(it, a[0]), cstr(it, a[1])))
		}
	}
	T["strings.Contains"] = func(it *Interp, fn *ssa.Function, a []Value) Value {
		sub := cstr(it, a[1])
		if s, ok := a[0].(*SymStr); ok {
			return it.symContains(s, sub)
		}
		return it.tb.BoolC(strings.Contains(a[0].(string), sub))
	}
	T["strings.HasPrefix"] = func(it *Interp, fn *ssa.Function, a []Value) Value {
		p := cstr(it, a[1])
		if s, ok := a[0].(*SymStr); ok {
			return it.symHasPrefix(s, p)
		}
		return it.tb.BoolC(strings.HasPrefix(a[0].(string), p))
	}
	T["strings.HasSuffix"] = s2b(strings.HasSuffix)
	T["strings.EqualFold"] = s2b(strings.EqualFold)
	s2s := func(f func(string, string) string) intrinsic {
		return func(it *Interp, fn *ssa.Function, a []Value) Value { return f(cstr(it, a[0]), cstr(it, a[1])) }
	}
	T["strings.TrimPrefix"] = s2s(strings.TrimPrefix)
	T["strings.TrimSuffix"] = s2s(strings.TrimSuffix)
	T["strings.Trim"] = s2s(strings.Trim)
	T["strings.TrimLeft"] = s2s(strings.TrimLeft)
	T["strings.TrimRight"] = s2s(strings.TrimRight)
	s2i := func(f func(string, string) int) intrinsic {
		return func(it *Interp, fn *ssa.Function, a []Value) Value {
			return it.mkInt(f(cstr(it, a[0]), cstr(it, a[1])))
		}
	}
	T["strings.Index"] = s2i(strings.Index)
	T["strings.LastIndex"] = s2i(strings.LastIndex)
	T["strings.Count"] = s2i(strings.Count)
	T["strings.Compare"] = s2i(strings.Compare)
	T["strings.Replace"] = func(it *Interp, fn *ssa.Function, a []Value) Value {
		return strings.Replace(cstr(it, a[0]), cstr(it, a[1]), cstr(it, a[2]), cint(it, a[3]))
	}
	T["strings.ReplaceAll"] = func(it *Interp, fn *ssa.Function, a []Value) Value {
		return strings.ReplaceAll(cstr(it, a[0]), cstr(it, a[1]), cstr(it, a[2]))
	}
	T["strings.Repeat"] = func(it *Interp, fn *ssa.Function, a []Value) Value {
		return strings.Repeat(cstr(it, a[0]), cint(it, a[1]))
	}
	T["strings.Join"] = func(it *Interp, fn *ssa.Function, a []Value) Value {
		s := a[0].(SliceV)
		sep := cstr(it, a[1])
		var r Value = ""
		for i := 0; i < s.Len; i++ {
			if i > 0 {
				r = it.strConcat(r, sep)
			}
			r = it.strConcat(r, it.sliceGet(s, i))
		}
		return r
	}
	T["sort.Strings"] = func(it *Interp, fn *ssa.Function, a []Value) Value {
		s := a[0].(SliceV)
		xs := make([]string, s.Len)
		for i := range xs {
			xs[i] = cstr(it, it.sliceGet(s, i))
		}
		sort.Strings(xs)
		for i := range xs {
			it.store(it.sliceElemPtr(s, i), xs[i])
		}
		return nil
	}
	sortSlice := func(it *Interp, fn *ssa.Function, a []Value) Value {
		ifc := a[0].(Iface)
		s := ifc.V.(SliceV)
		less := a[1]
		// insertion sort (stable) through the interpreted less closure
		for i := 1; i < s.Len; i++ {
			for j := i; j > 0; j-- {
				r := it.callValue(less, []Value{it.mkInt(j), it.mkInt(j - 1)}, nil).(*Term)
				if !it.decide(r) {
					break
				}
				x, y := it.sliceGet(s, j), it.sliceGet(s, j-1)
				it.store(it.sliceElemPtr(s, j), y)
				it.store(it.sliceElemPtr(s, j-1), x)
			}
		}
		return nil
	}
	T["sort.Slice"] = sortSlice
	T["sort.SliceStable"] = sortSlice

	// bytealg helpers used by bufio/bytes/strings
	T["internal/bytealg.IndexByte"] = func(it *Interp, fn *ssa.Function, a []Value) Value {
		s := a[0].(SliceV)
		c := a[1].(*Term)
		for i := 0; i < s.Len; i++ {
			b, ok := it.sliceGet(s, i).(*Term)
			if !ok {
				continue // numeric token cell: never equals a separator byte
			}
			if it.decide(it.tb.Eq(b, c)) {
				return it.mkInt(i)
			}
		}
		return it.mkInt(-1)
	}
	T["bytes.IndexByte"] = T["internal/bytealg.IndexByte"]
	T["internal/bytealg.IndexByteString"] = func(it *Interp, fn *ssa.Function, a []Value) Value {
		c := a[1].(*Term)
		switch s := a[0].(type) {
		case string:
			if c.IsConst() {
				return it.mkInt(strings.IndexByte(s, byte(c.U)))
			}
			for i := 0; i < len(s); i++ {
				if it.decide(it.tb.Eq(it.byteTerm(s[i]), c)) {
					return it.mkInt(i)
				}
			}
			return it.mkInt(-1)
		case *SymStr:
			for i, cell := range s.C {
				if cell.Tok != "" {
					continue
				}
				if it.decide(it.tb.Eq(cell.B, c)) {
					return it.mkInt(i)
				}
			}
			return it.mkInt(-1)
		}
		return it.mkInt(-1)
	}
	T["strings.IndexByte"] = T["internal/bytealg.IndexByteString"]
	T["internal/bytealg.MakeNoZero"] = func(it *Interp, fn *ssa.Function, a []Value) Value {
		n := cint(it, a[0])
		return it.makeSlice(types.Typ[types.Byte], n, n)
	}
	T["bytes.Equal"] = func(it *Interp, fn *ssa.Function, a []Value) Value {
		x, y := a[0].(SliceV), a[1].(SliceV)
		if x.Len != y.Len {
			return it.tb.False
		}
		r := it.tb.True
		for i := 0; i < x.Len; i++ {
			r = it.tb.And(r, it.valEq(it.sliceGet(x, i), it.sliceGet(y, i)))
		}
		return r
	}
	T["internal/bytealg.Equal"] = T["bytes.Equal"]

	// strings.Builder (its copy check converts pointers to uintptr): modelled over its buf field
	sbBuf := func(it *Interp, p Value) Ptr { return p.(Ptr).child(PathElem{I: 1}) }
	byteSlice := types.NewSlice(types.Typ[types.Byte])
	T["(*strings.Builder).WriteByte"] = func(it *Interp, fn *ssa.Function, a []Value) Value {
		bp := sbBuf(it, a[0])
		it.store(bp, it.appendValues(it.load(bp).(SliceV), types.Typ[types.Byte], []Value{a[1]}))
		return Iface{}
	}
	T["(*strings.Builder).WriteString"] = func(it *Interp, fn *ssa.Function, a []Value) Value {
		bp := sbBuf(it, a[0])
		bs := it.stringToBytes(a[1], byteSlice).(SliceV)
		vals := make([]Value, bs.Len)
		for i := range vals {
			vals[i] = it.sliceGet(bs, i)
		}
		it.store(bp, it.appendValues(it.load(bp).(SliceV), types.Typ[types.Byte], vals))
		return Tuple{it.mkInt(bs.Len), Iface{}}
	}
	T["(*strings.Builder).Write"] = func(it *Interp, fn *ssa.Function, a []Value) Value {
		bp := sbBuf(it, a[0])
		bs := a[1].(SliceV)
		vals := make([]Value, bs.Len)
		for i := range vals {
			vals[i] = it.sliceGet(bs, i)
		}
		it.store(bp, it.appendValues(it.load(bp).(SliceV), types.Typ[types.Byte], vals))
		return Tuple{it.mkInt(bs.Len), Iface{}}
	}
	T["(*strings.Builder).WriteRune"] = func(it *Interp, fn *ssa.Function, a []Value) Value {
		r := a[1].(*Term)
		if !r.IsConst() {
			it.outside("WriteRune of a symbolic rune")
		}
		bp := sbBuf(it, a[0])
		str := string(rune(r.SInt64()))
		vals := make([]Value, len(str))
		for i := range vals {
			vals[i] = it.byteTerm(str[i])
		}
		it.store(bp, it.appendValues(it.load(bp).(SliceV), types.Typ[types.Byte], vals))
		return Tuple{it.mkInt(len(str)), Iface{}}
	}
	T["(*strings.Builder).String"] = func(it *Interp, fn *ssa.Function, a []Value) Value {
		return it.bytesToString(it.load(sbBuf(it, a[0])).(SliceV), byteSlice)
	}
	T["(*strings.Builder).Len"] = func(it *Interp, fn *ssa.Function, a []Value) Value {
		return it.mkInt(it.load(sbBuf(it, a[0])).(SliceV).Len)
	}
	T["(*strings.Builder).Reset"] = func(it *Interp, fn *ssa.Function, a []Value) Value {
		it.store(sbBuf(it, a[0]), SliceV{Nil: true})
		return nil
	}
	T["(*strings.Builder).Grow"] = func(it *Interp, fn *ssa.Function, a []Value) Value { return nil }

	// bytes.Buffer: append-only model over its buf/off fields (Write*, Bytes, Len, Read, Reset)
	bbBuf := func(p Value) Ptr { return p.(Ptr).child(PathElem{I: 0}) }
	bbOff := func(p Value) Ptr { return p.(Ptr).child(PathElem{I: 1}) }
	bbAppend := func(it *Interp, p Value, vals []Value) {
		bp := bbBuf(p)
		it.store(bp, it.appendValues(it.load(bp).(SliceV), types.Typ[types.Byte], vals))
	}
	T["(*bytes.Buffer).Write"] = func(it *Interp, fn *ssa.Function, a []Value) Value {
		bs := a[1].(SliceV)
		vals := make([]Value, bs.Len)
		for i := range vals {
			vals[i] = it.sliceGet(bs, i)
		}
		bbAppend(it, a[0], vals)
		return Tuple{it.mkInt(bs.Len), Iface{}}
	}
	T["(*bytes.Buffer).WriteByte"] = func(it *Interp, fn *ssa.Function, a []Value) Value {
		bbAppend(it, a[0], []Value{a[1]})
		return Iface{}
	}
	T["(*bytes.Buffer).WriteString"] = func(it *Interp, fn *ssa.Function, a []Value) Value {
		bs := it.stringToBytes(a[1], byteSlice).(SliceV)
		vals := make([]Value, bs.Len)
		for i := range vals {
			vals[i] = it.sliceGet(bs, i)
		}
		bbAppend(it, a[0], vals)
		return Tuple{it.mkInt(bs.Len), Iface{}}
	}
	T["(*bytes.Buffer).Bytes"] = func(it *Interp, fn *ssa.Function, a []Value) Value {
		b := it.load(bbBuf(a[0])).(SliceV)
		off := cint(it, it.load(bbOff(a[0])))
		if b.Nil {
			return b
		}
		return SliceV{Arr: b.Arr, Off: b.Off + off, Len: b.Len - off, Cap: b.Cap - off}
	}
	T["(*bytes.Buffer).Len"] = func(it *Interp, fn *ssa.Function, a []Value) Value {
		b := it.load(bbBuf(a[0])).(SliceV)
		return it.mkInt(b.Len - cint(it, it.load(bbOff(a[0]))))
	}
	T["(*bytes.Buffer).String"] = func(it *Interp, fn *ssa.Function, a []Value) Value {
		b := it.load(bbBuf(a[0])).(SliceV)
		off := cint(it, it.load(bbOff(a[0])))
		if b.Nil {
			return ""
		}
		return it.bytesToString(SliceV{Arr: b.Arr, Off: b.Off + off, Len: b.Len - off, Cap: b.Cap - off}, byteSlice)
	}
	T["(*bytes.Buffer).Reset"] = func(it *Interp, fn *ssa.Function, a []Value) Value {
		it.store(bbBuf(a[0]), SliceV{Nil: true})
		it.store(bbOff(a[0]), it.mkInt(0))
		return nil
	}
	T["(*bytes.Buffer).Read"] = func(it *Interp, fn *ssa.Function, a []Value) Value {
		b := it.load(bbBuf(a[0])).(SliceV)
		off := cint(it, it.load(bbOff(a[0])))
		p := a[1].(SliceV)
		avail := b.Len - off
		if avail <= 0 {
			if p.Len == 0 {
				return Tuple{it.mkInt(0), Iface{}}
			}
			eof := it.load(Ptr{Obj: it.global(it.prog.ImportedPackage("io").Var("EOF"))})
			return Tuple{it.mkInt(0), eof}
		}
		n := min(avail, p.Len)
		for i := 0; i < n; i++ {
			it.store(it.sliceElemPtr(p, i), it.sliceGet(b, off+i))
		}
		it.store(bbOff(a[0]), it.mkInt(off+n))
		return Tuple{it.mkInt(n), Iface{}}
	}
	// encoding/json.Marshal: reflection is outside the encoder. The harness-visible contract used here: some
	// byte string of symbolic content whose length is a symbolic choice in [0, Bound("JSONLEN")].
	T["encoding/json.Marshal"] = func(it *Interp, fn *ssa.Function, a []Value) Value {
		mx, ok := it.cfg.Bounds["JSONLEN"]
		if !ok {
			// C11/C13: the message is an opaque token carrying the value (see zzverif.JSONMsg)
			return Tuple{it.intrTab[zzPath+".JSONMsg"](it, fn, a), Iface{}}
		}
		n := it.choose(mx + 1)
		it.jsonSeq++
		name := fmt.Sprintf("$json%d", it.jsonSeq)
		it.fixed[name+".len"] = it.mkInt(n)
		sl := it.makeSlice(types.Typ[types.Byte], n, n)
		for i := 0; i < n; i++ {
			v := it.newInput(fmt.Sprintf("%s[%d]", name, i), it.intSort(8), "byte")
			it.extendModel(v, it.byteTerm(0))
			setChild(sl.Arr.Obj.V, i, v)
		}
		return Tuple{sl, Iface{}}
	}

	// compress/gzip: identity pass-through (DEFLATE/CRC are outside the encoder; the claims are about the
	// layout inside the stream). NewReader returns a *gzip.Reader whose Read forwards to the wrapped reader.
	T["compress/gzip.NewReader"] = func(it *Interp, fn *ssa.Function, a []Value) Value {
		pkg := it.prog.ImportedPackage("compress/gzip")
		rt := pkg.Type("Reader").Type()
		o := it.newObject(it.zero(rt), rt)
		it.gzipUnder[o] = a[0]
		return Tuple{Ptr{Obj: o}, Iface{}}
	}
	T["(*compress/gzip.Reader).Read"] = func(it *Interp, fn *ssa.Function, a []Value) Value {
		u, ok := it.gzipUnder[a[0].(Ptr).Obj]
		if !ok {
			it.outside("gzip.Reader not created by the stubbed NewReader")
		}
		ifc := u.(Iface)
		m := it.findMethod(ifc.T, nil, "Read")
		return it.call(m, []Value{ifc.V, a[1]}, nil)
	}
	T["(*compress/gzip.Reader).Close"] = func(it *Interp, fn *ssa.Function, a []Value) Value { return Iface{} }

	it.setupCodecIntrinsics()
	it.setupReflIntrinsics()
}

// concretizeFloat forks over the feasible values of a float term (intended for terms that take few values).
func (it *Interp) concretizeFloat(t *Term) float64 {
	if t.IsConst() {
		return t.F
	}
	for tries := 0; tries < 64; tries++ {
		v, ok := it.modelValue(t)
		if !ok {
			panic(pathEnd{"killed", "concretizeFloat: no (further) feasible value"})
		}
		if it.decide(it.tb.Same(t, v)) {
			return v.F
		}
	}
	it.outside("concretizeFloat: too many values")
	return 0
}

func (it *Interp) stringSlice(vs []Value) Value {
	sl := it.makeSlice(types.Typ[types.String], len(vs), len(vs))
	for i, v := range vs {
		setChild(sl.Arr.Obj.V, i, v)
	}
	if len(vs) == 0 {
		return SliceV{Nil: true}
	}
	return sl
}

// isSpaceCell decides (forking) whether a cell is ASCII white space.
func (it *Interp) isSpaceCell(c Cell) bool {
	if c.Tok != "" {
		return false
	}
	if c.B.IsConst() {
		b := byte(c.B.U)
		return b == ' ' || b == '\t' || b == '\n' || b == '\r' || b == '\v' || b == '\f'
	}
	tb := it.tb
	e := tb.False
	for _, b := range []byte{' ', '\t', '\n', '\r', '\v', '\f'} {
		e = tb.Or(e, tb.Eq(c.B, it.byteTerm(b)))
	}
	return it.decide(e)
}

func (it *Interp) symFields(s *SymStr) []Value {
	var out []Value
	var cur []Cell
	flush := func() {
		if len(cur) > 0 {
			out = append(out, it.normStr(&SymStr{C: cur}))
			cur = nil
		}
	}
	for _, c := range s.C {
		if it.isSpaceCell(c) {
			flush()
		} else {
			cur = append(cur, c)
		}
	}
	flush()
	return out
}

func (it *Interp) symTrimSpace(s *SymStr) Value {
	lo, hi := 0, len(s.C)
	for lo < hi && it.isSpaceCell(s.C[lo]) {
		lo++
	}
	for hi > lo && it.isSpaceCell(s.C[hi-1]) {
		hi--
	}
	return it.normStr(&SymStr{C: s.C[lo:hi]})
}

func (it *Interp) cellIs(c Cell, b byte) bool {
	if c.Tok != "" {
		return false
	}
	return it.decide(it.tb.Eq(c.B, it.byteTerm(b)))
}

func (it *Interp) symSplit(s *SymStr, sep string) []Value {
	if len(sep) == 0 {
		it.outside("Split of a symbolic string on an empty separator")
	}
	var out []Value
	var cur []Cell
	for i := 0; i < len(s.C); {
		if it.symMatchAt(s, i, sep) {
			out = append(out, it.normStr(&SymStr{C: cur}))
			cur = nil
			i += len(sep)
			continue
		}
		cur = append(cur, s.C[i])
		i++
	}
	out = append(out, it.normStr(&SymStr{C: cur}))
	return out
}

func (it *Interp) symMatchAt(s *SymStr, i int, sub string) bool {
	if i+len(sub) > len(s.C) {
		return false
	}
	for j := 0; j < len(sub); j++ {
		if !it.cellIs(s.C[i+j], sub[j]) {
			return false
		}
	}
	return true
}

func (it *Interp) symContains(s *SymStr, sub string) *Term {
	for i := 0; i+len(sub) <= len(s.C); i++ {
		if it.symMatchAt(s, i, sub) {
			return it.tb.True
		}
	}
	return it.tb.False
}

func (it *Interp) symHasPrefix(s *SymStr, p string) *Term {
	return it.tb.BoolC(it.symMatchAt(s, 0, p))
}
