package main

import (
	"fmt"
	"go/types"

	"golang.org/x/tools/go/ssa"
)

// Type-directed models of the reflection helpers in polyform/refutil (C11, C13). package reflect itself is
// outside the encoder; these models walk the go/types layout of the struct value the helper is given and follow
// the helper's source line by line (which fields are skipped, where a loop breaks, what panics). They are part
// of the claim and are listed as stubs in the evidence; the native replay of every counterexample runs the real
// helpers, so a divergence between model and helper shows up as an unconfirmed counterexample.

const refutilPath = "github.com/EliCDavis/polyform/refutil"

func (it *Interp) reflPanic(format string, a ...interface{}) {
	panic(&goPanic{msg: "reflect: " + fmt.Sprintf(format, a...), stack: "refutil (modelled)"})
}

// reflStruct dereferences v (an `any`) down to a struct. ptr is the address of the struct when it was reached
// through a pointer (the value is then settable).
func (it *Interp) reflStruct(v Value, derefAll bool) (st *types.Struct, sv *StructV, ptr *Ptr) {
	ifc, ok := v.(Iface)
	if !ok || ifc.T == nil {
		it.reflPanic("helper called on a nil value")
	}
	t := ifc.T
	cur := ifc.V
	for n := 0; ; n++ {
		pt, isPtr := t.Underlying().(*types.Pointer)
		if !isPtr {
			break
		}
		if n >= 1 && !derefAll {
			break
		}
		p, ok := cur.(Ptr)
		if !ok || p.IsNil() {
			it.reflPanic("nil pointer handed to a reflection helper")
		}
		ptr = &Ptr{Obj: p.Obj, Path: p.Path}
		cur = it.load(p)
		t = pt.Elem()
	}
	s, isStruct := t.Underlying().(*types.Struct)
	if !isStruct {
		panic(&goPanic{msg: fmt.Sprintf("views of type: '%s' can not be populated", t.Underlying().String()), stack: "refutil (modelled)"})
	}
	x, ok := cur.(*StructV)
	if !ok {
		it.outside("reflection model: struct value expected, got %T", cur)
	}
	return s, x, ptr
}

// assertTo mirrors `v.(T)` for a value that sits in an interface: ok reports whether the assertion holds and
// val is the value of type T.
func assertTo(ifc Iface, T types.Type) (Value, bool) {
	if ifc.T == nil {
		return nil, false
	}
	if ti, isI := T.Underlying().(*types.Interface); isI {
		if types.Implements(ifc.T, ti) {
			return ifc, true
		}
		return nil, false
	}
	if types.Identical(ifc.T, T) {
		return ifc.V, true
	}
	return nil, false
}

func (it *Interp) newMapOf(t types.Type) *MapObj {
	it.objSeq++
	return &MapObj{ID: it.objSeq, T: t.Underlying().(*types.Map)}
}

func (it *Interp) reflFindField(v Value, field string) (types.Type, Ptr, bool) {
	st, _, ptr := it.reflStruct(v, true)
	for i := 0; i < st.NumFields(); i++ {
		f := st.Field(i)
		if f.Name() != field {
			continue
		}
		if ptr == nil {
			return f.Type(), Ptr{}, false
		}
		return f.Type(), ptr.child(PathElem{I: i}), f.Exported()
	}
	panic(&goPanic{msg: fmt.Sprintf("field '%s' was not found on struct", field), stack: "refutil (modelled)"})
}

func (it *Interp) setupReflIntrinsics() {
	T := it.intrTab
	ru := func(n string) string { return refutilPath + "." + n }

	T[ru("FieldValuesOfType")] = func(it *Interp, fn *ssa.Function, a []Value) Value {
		targ := fn.TypeArgs()[0]
		m := it.newMapOf(fn.Signature.Results().At(0).Type())
		st, sv, _ := it.reflStruct(a[0], false)
		for i := 0; i < st.NumFields(); i++ {
			f := st.Field(i)
			if _, isI := f.Type().Underlying().(*types.Interface); !isI || !f.Exported() {
				continue
			}
			ifc, _ := sv.F[i].(Iface)
			if ifc.T == nil {
				continue
			}
			val, ok := assertTo(ifc, targ)
			if !ok {
				continue
			}
			m.K = append(m.K, f.Name())
			m.V = append(m.V, val)
		}
		return MapV{M: m}
	}

	T[ru("FieldValuesOfTypeInArray")] = func(it *Interp, fn *ssa.Function, a []Value) Value {
		targ := fn.TypeArgs()[0]
		mt := fn.Signature.Results().At(0).Type()
		m := it.newMapOf(mt)
		st, sv, _ := it.reflStruct(a[0], false)
		for i := 0; i < st.NumFields(); i++ {
			f := st.Field(i)
			slt, isSlice := f.Type().Underlying().(*types.Slice)
			if !isSlice {
				continue
			}
			s, _ := sv.F[i].(SliceV)
			if s.Nil || s.Arr.Obj == nil {
				continue
			}
			if _, isI := slt.Elem().Underlying().(*types.Interface); !isI {
				continue
			}
			if ti, isI := targ.Underlying().(*types.Interface); !isI || !types.Implements(slt.Elem(), ti) {
				continue
			}
			if !f.Exported() && s.Len > 0 {
				continue // element.CanInterface() is false: the loop breaks on the first element
			}
			var vals []Value
			for k := 0; k < s.Len; k++ {
				e, _ := it.sliceGet(s, k).(Iface)
				val, ok := assertTo(e, targ)
				if !ok {
					break // a nil (or foreign) element ends the enumeration of this field
				}
				vals = append(vals, val)
			}
			if len(vals) > 0 {
				out := it.appendValues(SliceV{Nil: true}, targ, vals)
				m.K = append(m.K, f.Name())
				m.V = append(m.V, out)
			}
		}
		return MapV{M: m}
	}

	T[ru("SetStructField")] = func(it *Interp, fn *ssa.Function, a []Value) Value {
		field := cstr(it, a[1])
		ft, fp, settable := it.reflFindField(a[0], field)
		if !settable {
			panic(&goPanic{msg: fmt.Sprintf("field '%s' was found but can not be set", field), stack: "refutil (modelled)"})
		}
		val, _ := a[2].(Iface)
		if val.T == nil {
			it.store(fp, it.zero(ft))
			return nil
		}
		nv, ok := assertTo(val, ft)
		if !ok {
			it.reflPanic("Set: value of type %s is not assignable to type %s", val.T, ft)
		}
		it.store(fp, nv)
		return nil
	}

	T[ru("AddToStructFieldArray")] = func(it *Interp, fn *ssa.Function, a []Value) Value {
		field := cstr(it, a[1])
		ft, fp, settable := it.reflFindField(a[0], field)
		if !settable {
			panic(&goPanic{msg: fmt.Sprintf("field '%s' was found but can not be set", field), stack: "refutil (modelled)"})
		}
		slt, isSlice := ft.Underlying().(*types.Slice)
		if !isSlice {
			it.reflPanic("call of reflect.Append on %s Value", ft)
		}
		val, _ := a[2].(Iface)
		if val.T == nil {
			it.reflPanic("call of reflect.Value.Type on zero Value")
		}
		nv, ok := assertTo(val, slt.Elem())
		if !ok {
			it.reflPanic("Append: value of type %s is not assignable to type %s", val.T, slt.Elem())
		}
		s, _ := it.load(fp).(SliceV)
		it.store(fp, it.appendValues(s, slt.Elem(), []Value{nv}))
		return nil
	}

	T[ru("RemoveFromStructFieldArray")] = func(it *Interp, fn *ssa.Function, a []Value) Value {
		field := cstr(it, a[1])
		ft, fp, settable := it.reflFindField(a[0], field)
		if !settable {
			panic(&goPanic{msg: fmt.Sprintf("field '%s' was found but can not be set", field), stack: "refutil (modelled)"})
		}
		slt, isSlice := ft.Underlying().(*types.Slice)
		if !isSlice {
			it.reflPanic("call of reflect.Value.Slice on %s Value", ft)
		}
		idx := cint(it, a[2])
		s, _ := it.load(fp).(SliceV)
		if idx < 0 || idx > s.Cap || idx+1 > s.Len {
			it.reflPanic("slice index out of bounds")
		}
		var tail []Value
		for k := idx + 1; k < s.Len; k++ {
			tail = append(tail, it.sliceGet(s, k))
		}
		left := SliceV{Arr: s.Arr, Off: s.Off, Len: idx, Cap: s.Cap}
		it.store(fp, it.appendValues(left, slt.Elem(), tail))
		return nil
	}

	// the type factory only records which node types exist (for the editor's node palette); not part of any
	// claimed property
	T["(*"+refutilPath+".TypeFactory).TypeRegistered"] = func(it *Interp, fn *ssa.Function, a []Value) Value { return it.tb.True }
	T["(*"+refutilPath+".TypeFactory).RegisterType"] = func(it *Interp, fn *ssa.Function, a []Value) Value { return nil }

	// ----- opaque JSON messages (C11, C13): zzverif.JSONMsg(v) is a byte string standing for json.Marshal(v);
	// json.Unmarshal of such a message stores v (the stdlib round-trip contract for the basic types used).
	T[zzPath+".JSONMsg"] = func(it *Interp, fn *ssa.Function, a []Value) Value {
		ifc, _ := a[0].(Iface)
		if ifc.T == nil {
			it.outside("JSONMsg(nil)")
		}
		sl := it.makeSlice(types.Typ[types.Byte], 1, 1)
		setChild(sl.Arr.Obj.V, 0, it.byteTerm('j'))
		if it.jsonMsgs == nil {
			it.jsonMsgs = map[*Object]Iface{}
		}
		it.jsonMsgs[sl.Arr.Obj] = ifc
		return sl
	}
	T["encoding/json.Unmarshal"] = func(it *Interp, fn *ssa.Function, a []Value) Value {
		sl, _ := a[0].(SliceV)
		msg, ok := it.jsonMsgs[sl.Arr.Obj]
		if !ok {
			it.outside("encoding/json.Unmarshal of bytes that are not a zzverif.JSONMsg token")
		}
		dst, _ := a[1].(Iface)
		pt, isPtr := dst.T.Underlying().(*types.Pointer)
		if !isPtr {
			return it.newError("json: Unmarshal(non-pointer)")
		}
		if !types.Identical(pt.Elem(), msg.T) {
			return it.newError("json: cannot unmarshal value into Go value of type " + pt.Elem().String())
		}
		it.store(dst.V.(Ptr), copyVal(msg.V))
		return Iface{}
	}
}
