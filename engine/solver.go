package main

// Long-lived SMT solver process (z3 -in / cvc5 --incremental) with lazily emitted global definitions.

import (
	"bufio"
	"fmt"
	"io"
	"math"
	"math/big"
	"os"
	"os/exec"
	"strconv"
	"strings"
	"sync"
	"time"
)

type Result int

const (
	Unsat Result = iota
	Sat
	Unknown
)

func (r Result) String() string { return [...]string{"unsat", "sat", "unknown"}[r] }

type Solver struct {
	kind      string // z3-new | z3 | cvc5
	cmd       *exec.Cmd
	in        io.WriteCloser
	out       *bufio.Reader
	emitted   map[int]bool
	timeoutMs int
	seq       int
	Queries   [3]int
	Time      time.Duration
	Errors    []string
	log       io.Writer
	restarts  int
	// Fallback names a second solver asked (one-shot process) when the primary answers unknown.
	Fallback       string
	FirstTimeoutMs int
	FallbackUsed   int
	// Tactic, when set, is tried first (check-sat-using); any error/unknown falls back to plain check-sat.
	Tactic          string
	TacticFallbacks int
}

func NewSolver(kind string, timeoutMs int) *Solver {
	s := &Solver{kind: kind, timeoutMs: timeoutMs}
	s.start()
	return s
}

func (s *Solver) start() {
	var cmd *exec.Cmd
	switch s.kind {
	case "z3":
		cmd = exec.Command("/usr/bin/z3", "-in")
	case "cvc5":
		cmd = exec.Command("cvc5", "--incremental", "--produce-models", fmt.Sprintf("--tlimit-per=%d", s.timeoutMs), "--lang=smt2")
	default:
		cmd = exec.Command("z3-new", "-in")
	}
	in, _ := cmd.StdinPipe()
	out, _ := cmd.StdoutPipe()
	cmd.Stderr = cmd.Stdout
	if err := cmd.Start(); err != nil {
		panic(err)
	}
	s.cmd, s.in, s.out = cmd, in, bufio.NewReaderSize(out, 1<<20)
	registerSolver(cmd.Process.Pid)
	s.emitted = map[int]bool{}
}

var (
	solverMu   sync.Mutex
	solverPids = map[int]bool{}
)

func registerSolver(pid int) {
	solverMu.Lock()
	solverPids[pid] = true
	solverMu.Unlock()
}

// killAllSolvers is called from the signal handler so that a terminated run leaves no solver spinning.
func killAllSolvers() {
	solverMu.Lock()
	for pid := range solverPids {
		if p, err := os.FindProcess(pid); err == nil {
			p.Kill()
		}
	}
	solverMu.Unlock()
}

func (s *Solver) Close() {
	if s.cmd != nil {
		s.in.Close()
		s.cmd.Process.Kill()
		s.cmd.Wait()
		s.cmd = nil
	}
}

func (s *Solver) send(txt string) {
	if s.log != nil {
		io.WriteString(s.log, txt)
	}
	io.WriteString(s.in, txt)
}

// roundtrip sends text followed by an echo marker and returns the output lines before the marker.
func (s *Solver) roundtrip(txt string) ([]string, bool) {
	s.seq++
	marker := fmt.Sprintf("<<m%d>>", s.seq)
	s.send(txt + fmt.Sprintf("(echo \"%s\")\n", marker))
	type res struct {
		lines []string
		ok    bool
	}
	ch := make(chan res, 1)
	go func() {
		var lines []string
		for {
			l, err := s.out.ReadString('\n')
			if err != nil {
				ch <- res{lines, false}
				return
			}
			l = strings.TrimRight(l, "\r\n")
			if strings.Contains(l, marker) {
				ch <- res{lines, true}
				return
			}
			lines = append(lines, l)
		}
	}()
	select {
	case r := <-ch:
		if !r.ok {
			// the solver process died: start a fresh one for the next query
			s.cmd.Process.Kill()
			s.cmd.Wait()
			s.restarts++
			s.start()
		}
		return r.lines, r.ok
	case <-time.After(time.Duration(s.timeoutMs)*time.Millisecond + 8*time.Second):
		// hung solver: kill and restart
		s.cmd.Process.Kill()
		<-ch
		s.cmd.Wait()
		s.restarts++
		s.start()
		return nil, false
	}
}

func (s *Solver) emit(t *Term, sb *strings.Builder) {
	if t.Op == "const" || s.emitted[t.ID] {
		return
	}
	// iterative post-order to avoid deep recursion
	type fr struct {
		t *Term
		i int
	}
	st := []fr{{t, 0}}
	for len(st) > 0 {
		f := &st[len(st)-1]
		if f.i < len(f.t.Args) {
			c := f.t.Args[f.i]
			f.i++
			if c.Op != "const" && !s.emitted[c.ID] {
				st = append(st, fr{c, 0})
			}
			continue
		}
		x := f.t
		st = st[:len(st)-1]
		if s.emitted[x.ID] {
			continue
		}
		s.emitted[x.ID] = true
		if x.Op == "var" {
			fmt.Fprintf(sb, "(declare-fun %s () %s)\n", varSMT(x.Name), x.S.SMT())
		} else {
			fmt.Fprintf(sb, "(define-fun t%d () %s %s)\n", x.ID, x.S.SMT(), x.body())
		}
	}
}

type Model map[string]*Term // var name -> constant term

// Check decides satisfiability of the conjunction of lits with a standalone (non-incremental) query:
// z3's incremental core is far weaker than its tactic pipeline on NRA and FP, so every query is sent after
// (reset) together with the cone of definitions it needs. On sat, a model over wantVars is returned.
func (s *Solver) Check(tb *TB, lits []*Term, wantVars []*Term) (Result, Model) {
	t0 := time.Now()
	var lastQuery string
	defer func() {
		d := time.Since(t0)
		s.Time += d
		if p := os.Getenv("GOSYM_SLOWLOG"); p != "" && d > 5*time.Second {
			s.seq++
			os.WriteFile(fmt.Sprintf("%s.%d.%d.smt2", p, os.Getpid(), s.seq), []byte(fmt.Sprintf("; took %v\n%s", d, lastQuery)), 0o644)
		}
	}()
	var sb strings.Builder
	s.emitted = map[int]bool{}
	sb.WriteString("(reset)\n")
	firstTimeout := s.timeoutMs
	if s.Fallback != "" && s.FirstTimeoutMs > 0 && s.FirstTimeoutMs < firstTimeout {
		firstTimeout = s.FirstTimeoutMs
	}
	if s.kind == "cvc5" {
		sb.WriteString("(set-option :produce-models true)\n(set-logic ALL)\n")
	} else {
		fmt.Fprintf(&sb, "(set-option :produce-models true)\n(set-option :timeout %d)\n(set-option :pp.decimal false)\n", firstTimeout)
	}
	headerLen := sb.Len()
	seenSV := map[*Term]bool{}
	var sides []*Term
	var addSides func(t *Term)
	addSides = func(t *Term) {
		for _, v := range t.SV {
			if !seenSV[v] {
				seenSV[v] = true
				sides = append(sides, v.Side)
				addSides(v.Side)
			}
		}
	}
	for _, l := range lits {
		s.emit(l, &sb)
		addSides(l)
	}
	for _, sd := range sides {
		s.emit(sd, &sb)
	}
	for _, v := range wantVars {
		s.emit(v, &sb)
	}
	for _, l := range lits {
		fmt.Fprintf(&sb, "(assert %s)\n", l.ref())
	}
	for _, sd := range sides {
		fmt.Fprintf(&sb, "(assert %s)\n", sd.ref())
	}
	res := Unknown
	attempt := func(cmd string, final bool) bool {
		lastQuery = sb.String() + cmd
		lines, ok := s.roundtrip(sb.String() + cmd)
		for _, l := range lines {
			if strings.Contains(l, "(error") {
				if final {
					s.Errors = append(s.Errors, l)
				}
				ok = false
			}
		}
		if ok && len(lines) > 0 {
			switch strings.TrimSpace(lines[len(lines)-1]) {
			case "sat":
				res = Sat
				return true
			case "unsat":
				res = Unsat
				return true
			}
		}
		return false
	}
	if s.Tactic == "" || s.kind == "cvc5" || !attempt("(check-sat-using "+s.Tactic+")\n", false) {
		if s.Tactic != "" {
			s.TacticFallbacks++
		}
		attempt("(check-sat)\n", true)
	}
	var model Model
	if res == Unknown && s.Fallback == "cvc5" {
		// portfolio: cvc5 decides many real-arithmetic conjunctions in milliseconds on which z3's nlsat times out
		body := sb.String()[headerLen:]
		res, model = s.cvc5OneShot(tb, body, wantVars)
		s.FallbackUsed++
		if res != Unknown {
			s.Queries[res]++
			return res, model
		}
	}
	if res == Sat && len(wantVars) > 0 {
		var q strings.Builder
		q.WriteString("(get-value (")
		for _, v := range wantVars {
			q.WriteString(v.ref() + " ")
		}
		q.WriteString("))\n")
		ml, ok2 := s.roundtrip(q.String())
		if ok2 {
			model = parseModel(tb, strings.Join(ml, " "), wantVars)
		}
	}
	s.Queries[res]++
	return res, model
}

// cvc5OneShot runs one query in a fresh cvc5 process.
func (s *Solver) cvc5OneShot(tb *TB, body string, wantVars []*Term) (Result, Model) {
	var q strings.Builder
	q.WriteString("(set-option :produce-models true)\n(set-logic ALL)\n")
	q.WriteString(body)
	q.WriteString("(check-sat)\n")
	if len(wantVars) > 0 {
		q.WriteString("(get-value (")
		for _, v := range wantVars {
			q.WriteString(v.ref() + " ")
		}
		q.WriteString("))\n")
	}
	cmd := exec.Command("cvc5", "--lang=smt2", fmt.Sprintf("--tlimit=%d", s.timeoutMs))
	cmd.Stdin = strings.NewReader(q.String())
	outb, _ := cmd.Output()
	out := string(outb)
	lines := strings.SplitN(strings.TrimSpace(out), "\n", 2)
	if len(lines) == 0 || strings.Contains(out, "(error") {
		return Unknown, nil
	}
	switch strings.TrimSpace(lines[0]) {
	case "unsat":
		return Unsat, nil
	case "sat":
		var m Model
		if len(lines) > 1 && len(wantVars) > 0 {
			m = parseModel(tb, lines[1], wantVars)
		}
		return Sat, m
	}
	return Unknown, nil
}

// ---------- s-expression model parsing ----------

type sexp struct {
	atom string
	list []*sexp
}

func parseSexp(s string, i int) (*sexp, int) {
	for i < len(s) && (s[i] == ' ' || s[i] == '\n' || s[i] == '\t') {
		i++
	}
	if i >= len(s) {
		return nil, i
	}
	if s[i] == '(' {
		i++
		e := &sexp{list: []*sexp{}}
		for {
			for i < len(s) && (s[i] == ' ' || s[i] == '\n' || s[i] == '\t') {
				i++
			}
			if i >= len(s) {
				return e, i
			}
			if s[i] == ')' {
				return e, i + 1
			}
			var c *sexp
			c, i = parseSexp(s, i)
			if c == nil {
				return e, i
			}
			e.list = append(e.list, c)
		}
	}
	if s[i] == '|' {
		j := strings.IndexByte(s[i+1:], '|')
		return &sexp{atom: s[i : i+j+2]}, i + j + 2
	}
	j := i
	for j < len(s) && s[j] != ' ' && s[j] != ')' && s[j] != '(' && s[j] != '\n' {
		j++
	}
	return &sexp{atom: s[i:j]}, j
}

func sexpRat(e *sexp) *big.Rat {
	if e.list == nil {
		r := new(big.Rat)
		a := strings.TrimSuffix(e.atom, "?")
		if _, ok := r.SetString(a); ok {
			return r
		}
		return nil
	}
	if len(e.list) == 0 {
		return nil
	}
	switch e.list[0].atom {
	case "-":
		if len(e.list) == 2 {
			r := sexpRat(e.list[1])
			if r == nil {
				return nil
			}
			return r.Neg(r)
		}
		if len(e.list) == 3 {
			a, b := sexpRat(e.list[1]), sexpRat(e.list[2])
			if a == nil || b == nil {
				return nil
			}
			return a.Sub(a, b)
		}
	case "/":
		a, b := sexpRat(e.list[1]), sexpRat(e.list[2])
		if a == nil || b == nil || b.Sign() == 0 {
			return nil
		}
		return a.Quo(a, b)
	case "root-obj":
		// algebraic number: not exactly representable; handled by caller via decimal approximation
		return nil
	}
	return nil
}

func parseBVAtom(a string) (uint64, int, bool) {
	if strings.HasPrefix(a, "#x") {
		v, err := strconv.ParseUint(a[2:], 16, 64)
		return v, 4 * (len(a) - 2), err == nil
	}
	if strings.HasPrefix(a, "#b") {
		v, err := strconv.ParseUint(a[2:], 2, 64)
		return v, len(a) - 2, err == nil
	}
	return 0, 0, false
}

func parseModel(tb *TB, txt string, vars []*Term) Model {
	m := Model{}
	e, _ := parseSexp(txt, 0)
	if e == nil {
		return m
	}
	for i, pair := range e.list {
		if i >= len(vars) || len(pair.list) != 2 {
			continue
		}
		v := vars[i]
		val := pair.list[1]
		switch v.S.K {
		case SBool:
			m[v.Name] = tb.BoolC(val.atom == "true")
		case SBV:
			if val.list != nil && len(val.list) == 3 && val.list[0].atom == "_" { // (_ bv10 32)
				n, _ := strconv.ParseUint(strings.TrimPrefix(val.list[1].atom, "bv"), 10, 64)
				m[v.Name] = tb.BVC(v.S.W, n)
			} else if u, _, ok := parseBVAtom(val.atom); ok {
				m[v.Name] = tb.BVC(v.S.W, u)
			}
		case SInt:
			if r := sexpRat(val); r != nil && r.IsInt() && r.Num().IsInt64() {
				m[v.Name] = tb.IntC(r.Num().Int64())
			}
		case SReal:
			if r := sexpRat(val); r != nil {
				f, _ := r.Float64()
				m[v.Name] = tb.RealC(f)
			} else if f, ok := approxRootObj(val); ok {
				m[v.Name] = tb.RealC(f)
			}
		case SFP:
			if val.list != nil && len(val.list) == 4 && val.list[0].atom == "fp" {
				sg, _, _ := parseBVAtom(val.list[1].atom)
				ex, _, _ := parseBVAtom(val.list[2].atom)
				mt, _, _ := parseBVAtom(val.list[3].atom)
				if v.S.W == 32 {
					m[v.Name] = tb.FPC(32, float64(math.Float32frombits(uint32(sg<<31|ex<<23|mt))))
				} else {
					m[v.Name] = tb.FPC(64, math.Float64frombits(sg<<63|ex<<52|mt))
				}
			} else if val.list != nil && len(val.list) >= 2 && val.list[0].atom == "_" {
				var f float64
				switch val.list[1].atom {
				case "+zero":
					f = 0
				case "-zero":
					f = math.Copysign(0, -1)
				case "+oo":
					f = math.Inf(1)
				case "-oo":
					f = math.Inf(-1)
				case "NaN":
					f = math.NaN()
				}
				m[v.Name] = tb.FPC(v.S.W, f)
			}
		}
	}
	return m
}

// approxRootObj evaluates (root-obj (+ (^ x 2) (- 2)) 1) style values numerically for replay purposes.
func approxRootObj(e *sexp) (float64, bool) {
	if e.list == nil || len(e.list) != 3 || e.list[0].atom != "root-obj" {
		return 0, false
	}
	idx, err := strconv.Atoi(e.list[2].atom)
	if err != nil {
		return 0, false
	}
	poly := e.list[1]
	var eval func(p *sexp, x float64) float64
	eval = func(p *sexp, x float64) float64 {
		if p.list == nil {
			if p.atom == "x" {
				return x
			}
			f, _ := strconv.ParseFloat(p.atom, 64)
			return f
		}
		switch p.list[0].atom {
		case "+":
			r := 0.0
			for _, c := range p.list[1:] {
				r += eval(c, x)
			}
			return r
		case "*":
			r := 1.0
			for _, c := range p.list[1:] {
				r *= eval(c, x)
			}
			return r
		case "-":
			if len(p.list) == 2 {
				return -eval(p.list[1], x)
			}
			r := eval(p.list[1], x)
			for _, c := range p.list[2:] {
				r -= eval(c, x)
			}
			return r
		case "^":
			return math.Pow(eval(p.list[1], x), eval(p.list[2], x))
		}
		return math.NaN()
	}
	// find real roots by scanning sign changes on a wide log-spaced grid
	var roots []float64
	var pts []float64
	for e := -12.0; e <= 12; e += 0.01 {
		pts = append(pts, -math.Pow(10, -e))
	}
	pts = append(pts, 0)
	for e := -12.0; e <= 12; e += 0.01 {
		pts = append(pts, math.Pow(10, e))
	}
	// pts is increasing: negatives from -1e12 … -1e-12, 0, positives
	for i := 0; i+1 < len(pts); i++ {
		a, b := pts[i], pts[i+1]
		fa, fb := eval(poly, a), eval(poly, b)
		if fa == 0 {
			roots = append(roots, a)
			continue
		}
		if fa*fb < 0 {
			for k := 0; k < 200; k++ {
				mid := (a + b) / 2
				fm := eval(poly, mid)
				if fa*fm <= 0 {
					b, fb = mid, fm
				} else {
					a, fa = mid, fm
				}
			}
			roots = append(roots, (a+b)/2)
		}
	}
	if idx >= 1 && idx <= len(roots) {
		return roots[idx-1], true
	}
	return 0, false
}
