package main

// Strings with symbolic bytes and numeric tokens.

func strToSym(it *Interp, s string) *SymStr {
	c := make([]Cell, len(s))
	for i := 0; i < len(s); i++ {
		c[i] = Cell{B: it.byteTerm(s[i])}
	}
	return &SymStr{C: c}
}

// normStr turns an all-concrete SymStr back into a Go string.
func (it *Interp) normStr(s *SymStr) Value {
	bs := make([]byte, len(s.C))
	for i, c := range s.C {
		if c.Tok != "" || !c.B.IsConst() {
			return s
		}
		bs[i] = byte(c.B.U)
	}
	return string(bs)
}

func (it *Interp) cellToValue(c Cell) Value {
	if c.Tok == "" {
		return c.B
	}
	return &TokByte{C: c}
}

// TokByte is a byte-typed value standing for a whole numeric token cell.
type TokByte struct{ C Cell }

func (it *Interp) valueToCell(v Value) Cell {
	switch x := v.(type) {
	case *Term:
		return Cell{B: x}
	case *TokByte:
		return x.C
	}
	it.outside("byte cell of unexpected kind %T", v)
	return Cell{}
}

func (it *Interp) symStrEq(a, b *SymStr) *Term {
	if len(a.C) != len(b.C) {
		hasTok := func(s *SymStr) bool {
			for _, c := range s.C {
				if c.Tok != "" {
					return true
				}
			}
			return false
		}
		ta, tbk := hasTok(a), hasTok(b)
		if !ta && !tbk {
			return it.tb.False
		}
		// a token stands for at least one byte: a string with more cells than the other side has bytes is longer
		if !ta && len(b.C) > len(a.C) {
			return it.tb.False
		}
		if !tbk && len(a.C) > len(b.C) {
			return it.tb.False
		}
		// a token-free side whose bytes cannot all belong to a number cannot equal a token
		nonNumeric := func(s *SymStr) bool {
			for _, c := range s.C {
				if c.B != nil && c.B.IsConst() && !tokenAlphabet(byte(c.B.U)) {
					return true
				}
			}
			return false
		}
		if (!ta && nonNumeric(a) && allTokens(b)) || (!tbk && nonNumeric(b) && allTokens(a)) {
			return it.tb.False
		}
		it.outside("comparison of strings with numeric tokens of different cell counts")
	}
	r := it.tb.True
	for i := range a.C {
		x, y := a.C[i], b.C[i]
		if x.Tok != y.Tok {
			if x.Tok != "" && y.Tok != "" {
				it.outside("comparison of a dec token with a flt token")
			}
			// token vs byte: a token never equals a byte outside the number alphabet
			bc := x
			if x.Tok != "" {
				bc = y
			}
			if bc.B != nil && bc.B.IsConst() && !tokenAlphabet(byte(bc.B.U)) {
				return it.tb.False
			}
			it.outside("comparison of a numeric token with a digit-like byte")
		}
		if x.Tok == "" {
			r = it.tb.And(r, it.tb.Eq(x.B, y.B))
		} else {
			r = it.tb.And(r, it.tb.Same(x.T, y.T))
		}
	}
	return r
}

func (it *Interp) strConcat(a, b Value) Value {
	as, aok := a.(string)
	bs, bok := b.(string)
	if aok && bok {
		return as + bs
	}
	var x, y *SymStr
	if aok {
		x = strToSym(it, as)
	} else {
		x = a.(*SymStr)
	}
	if bok {
		y = strToSym(it, bs)
	} else {
		y = b.(*SymStr)
	}
	return &SymStr{C: append(append([]Cell{}, x.C...), y.C...)}
}

func allTokens(s *SymStr) bool {
	for _, c := range s.C {
		if c.Tok == "" {
			return false
		}
	}
	return true
}
