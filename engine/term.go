package main

// Term layer: hash-consed SMT terms with eager constant folding.

import (
	"fmt"
	"go/token"
	"math"
	"math/big"
	"strings"
)

type SortKind int

const (
	SBool SortKind = iota
	SBV
	SFP
	SInt
	SReal
)

type Sort struct {
	K SortKind
	W int // BV width, FP total width (32/64)
}

var (
	BoolSort = Sort{SBool, 0}
	IntSort  = Sort{SInt, 0}
	RealSort = Sort{SReal, 0}
	F64Sort  = Sort{SFP, 64}
	F32Sort  = Sort{SFP, 32}
)

func BVSort(w int) Sort { return Sort{SBV, w} }

func (s Sort) SMT() string {
	switch s.K {
	case SBool:
		return "Bool"
	case SBV:
		return fmt.Sprintf("(_ BitVec %d)", s.W)
	case SFP:
		if s.W == 32 {
			return "(_ FloatingPoint 8 24)"
		}
		return "(_ FloatingPoint 11 53)"
	case SInt:
		return "Int"
	case SReal:
		return "Real"
	}
	return "?"
}

type Term struct {
	ID    int
	S     Sort
	Op    string // "const", "var", or operator
	Args  []*Term
	B     bool
	U     uint64
	F     float64
	Name  string // var name or operator parameter
	Depth int
	SV    []*Term // side-constrained variables reachable from this term
	Side  *Term   // for a side variable: its defining constraint
	Rad   *Term   // for a real square-root side variable: its (non-negative) radicand
}

func (t *Term) IsConst() bool { return t.Op == "const" }

// SInt64 returns the signed value of a constant BV/Int.
func (t *Term) SInt64() int64 {
	if t.S.K == SInt {
		return int64(t.U)
	}
	w := t.S.W
	if w >= 64 {
		return int64(t.U)
	}
	if t.U&(1<<(uint(w)-1)) != 0 {
		return int64(t.U | ^((1 << uint(w)) - 1))
	}
	return int64(t.U)
}

type TB struct {
	tab         map[termKey]*Term
	all         []*Term
	vars        map[string]*Term
	True, False *Term
}

func NewTB() *TB {
	tb := &TB{tab: map[termKey]*Term{}, vars: map[string]*Term{}}
	tb.True = tb.BoolC(true)
	tb.False = tb.BoolC(false)
	return tb
}

type termKey struct {
	op         string
	sk, sw     int
	name       string
	b          bool
	u, f       uint64
	n          int
	a0, a1, a2 int
}

func (tb *TB) intern(t *Term) *Term {
	k := termKey{op: t.Op, sk: int(t.S.K), sw: t.S.W, name: t.Name, b: t.B, u: t.U, f: math.Float64bits(t.F), n: len(t.Args), a0: -1, a1: -1, a2: -1}
	for i, a := range t.Args {
		switch i {
		case 0:
			k.a0 = a.ID
		case 1:
			k.a1 = a.ID
		case 2:
			k.a2 = a.ID
		default:
			panic("term with more than 3 arguments")
		}
		if a.Depth+1 > t.Depth {
			t.Depth = a.Depth + 1
		}
	}
	if e, ok := tb.tab[k]; ok {
		return e
	}
	for _, a := range t.Args {
		for _, v := range a.SV {
			t.SV = addSV(t.SV, v)
		}
	}
	t.ID = len(tb.all)
	tb.all = append(tb.all, t)
	tb.tab[k] = t
	return t
}

func mask(w int) uint64 {
	if w >= 64 {
		return ^uint64(0)
	}
	return (uint64(1) << uint(w)) - 1
}

func (tb *TB) BoolC(b bool) *Term { return tb.intern(&Term{S: BoolSort, Op: "const", B: b}) }
func (tb *TB) BVC(w int, v uint64) *Term {
	return tb.intern(&Term{S: BVSort(w), Op: "const", U: v & mask(w)})
}
func (tb *TB) IntC(v int64) *Term { return tb.intern(&Term{S: IntSort, Op: "const", U: uint64(v)}) }
func (tb *TB) RealC(f float64) *Term {
	if f == 0 {
		f = 0 // normalise -0
	}
	return tb.intern(&Term{S: RealSort, Op: "const", F: f})
}
func (tb *TB) FPC(w int, f float64) *Term {
	if w == 32 {
		f = float64(float32(f))
	}
	return tb.intern(&Term{S: Sort{SFP, w}, Op: "const", F: f})
}
func (tb *TB) Var(name string, s Sort) *Term {
	t := tb.intern(&Term{S: s, Op: "var", Name: name})
	tb.vars[name] = t
	return t
}

func addSV(l []*Term, v *Term) []*Term {
	for _, x := range l {
		if x == v {
			return l
		}
	}
	return append(l, v)
}

// SideVar creates (or returns) a variable whose meaning is given by a defining constraint that is
// asserted with every query that mentions it (sqrt, sin/cos pairs, ...).
func (tb *TB) SideVar(name string, s Sort, constraint func(v *Term) *Term) *Term {
	if v, ok := tb.vars[name]; ok {
		return v
	}
	v := &Term{S: s, Op: "var", Name: name}
	v = tb.intern(v)
	tb.vars[name] = v
	v.SV = []*Term{v}
	v.Side = constraint(v)
	for _, x := range v.Side.SV {
		v.SV = addSV(v.SV, x)
	}
	return v
}

func (tb *TB) mk(op string, s Sort, name string, args ...*Term) *Term {
	return tb.intern(&Term{S: s, Op: op, Name: name, Args: args})
}

// ---------- boolean ----------

func (tb *TB) Not(a *Term) *Term {
	if a.IsConst() {
		return tb.BoolC(!a.B)
	}
	if a.Op == "not" {
		return a.Args[0]
	}
	return tb.mk("not", BoolSort, "", a)
}
func (tb *TB) And(a, b *Term) *Term {
	if a.IsConst() {
		if a.B {
			return b
		}
		return a
	}
	if b.IsConst() {
		if b.B {
			return a
		}
		return b
	}
	if a == b {
		return a
	}
	return tb.mk("and", BoolSort, "", a, b)
}
func (tb *TB) Or(a, b *Term) *Term {
	if a.IsConst() {
		if a.B {
			return a
		}
		return b
	}
	if b.IsConst() {
		if b.B {
			return b
		}
		return a
	}
	if a == b {
		return a
	}
	return tb.mk("or", BoolSort, "", a, b)
}
func (tb *TB) AndN(ts ...*Term) *Term {
	r := tb.True
	for _, t := range ts {
		r = tb.And(r, t)
	}
	return r
}
func (tb *TB) Implies(a, b *Term) *Term { return tb.Or(tb.Not(a), b) }

func (tb *TB) Ite(c, a, b *Term) *Term {
	if c.IsConst() {
		if c.B {
			return a
		}
		return b
	}
	if a == b {
		return a
	}
	if a.S != b.S {
		panic(fmt.Sprintf("ite sort mismatch %v %v", a.S, b.S))
	}
	if a.S.K == SBool {
		if a.IsConst() && b.IsConst() {
			if a.B {
				return c
			}
			return tb.Not(c)
		}
	}
	return tb.mk("ite", a.S, "", c, a, b)
}

// constEq reports equality of two constants of the same sort (Go == semantics for floats).
func constEq(a, b *Term) bool {
	switch a.S.K {
	case SBool:
		return a.B == b.B
	case SBV, SInt:
		return a.U == b.U
	default:
		return a.F == b.F
	}
}

// liftIte2 applies f over ite leaves when at most a handful of constant leaves are involved.
// liftable: a (small) tree of ites whose leaves are all constants - a "guarded constant". Operations with a
// constant other operand are pushed to the leaves, so guarded constants stay guarded constants.
func (tb *TB) liftable(a *Term) bool {
	if a.Op != "ite" {
		return false
	}
	n := 0
	return constTree(a, &n)
}

func constTree(a *Term, n *int) bool {
	if a.IsConst() {
		*n++
		return *n <= 32
	}
	if a.Op != "ite" {
		return false
	}
	return constTree(a.Args[1], n) && constTree(a.Args[2], n)
}

// liftable1: unary operators are pushed through any (shallow) ite so that "convert then select" and
// "select then convert" have the same normal form.
func (tb *TB) liftable1(a *Term) bool {
	return a.Op == "ite" && a.Depth < 40
}

// Eq is Go's == on scalars (IEEE equality on floats).
func (tb *TB) Eq(a, b *Term) *Term {
	if a.S != b.S {
		panic(fmt.Sprintf("eq sort mismatch %v %v (%s, %s)", a.S, b.S, a.Op, b.Op))
	}
	if a.IsConst() && b.IsConst() {
		return tb.BoolC(constEq(a, b))
	}
	if a.S.K == SReal && a != b && (a.Rad != nil || b.Rad != nil) {
		sq := func(x *Term) *Term { return tb.Arith(token.MUL, x, x, true) }
		switch {
		case a.Rad != nil && b.Rad != nil:
			return tb.Eq(a.Rad, b.Rad)
		case a.Rad != nil:
			return tb.And(tb.Cmp(token.LEQ, tb.RealC(0), b, true), tb.Eq(a.Rad, sq(b)))
		default:
			return tb.And(tb.Cmp(token.LEQ, tb.RealC(0), a, true), tb.Eq(b.Rad, sq(a)))
		}
	}
	if a == b {
		if a.S.K != SFP {
			return tb.True
		}
		return tb.Not(tb.FUn("isnan", a))
	}
	if tb.liftable(a) && b.IsConst() {
		return tb.Ite(a.Args[0], tb.Eq(a.Args[1], b), tb.Eq(a.Args[2], b))
	}
	// two selections under the same guard
	if a.Op == "ite" && b.Op == "ite" && a.Args[0] == b.Args[0] && a.Depth < 40 {
		return tb.Ite(a.Args[0], tb.Eq(a.Args[1], b.Args[1]), tb.Eq(a.Args[2], b.Args[2]))
	}
	if tb.liftable(b) && a.IsConst() {
		return tb.Ite(b.Args[0], tb.Eq(a, b.Args[1]), tb.Eq(a, b.Args[2]))
	}
	if a.S.K == SBool {
		if a.IsConst() {
			if a.B {
				return b
			}
			return tb.Not(b)
		}
		if b.IsConst() {
			if b.B {
				return a
			}
			return tb.Not(a)
		}
	}
	// (x + k1) == k2  ->  x == k2-k1   (wrap-around arithmetic makes this exact for BV; Int trivially)
	if b.IsConst() && (a.Op == "bvadd" || (a.Op == "+" && a.S.K == SInt)) {
		if a.Args[1].IsConst() {
			return tb.Eq(a.Args[0], tb.Arith(token.SUB, b, a.Args[1], true))
		}
		if a.Args[0].IsConst() {
			return tb.Eq(a.Args[1], tb.Arith(token.SUB, b, a.Args[0], true))
		}
	}
	if a.IsConst() && (b.Op == "bvadd" || (b.Op == "+" && b.S.K == SInt)) {
		return tb.Eq(b, a)
	}
	if a.ID > b.ID {
		a, b = b, a
	}
	if a.S.K == SFP {
		return tb.mk("fp.eq", BoolSort, "", a, b)
	}
	return tb.mk("=", BoolSort, "", a, b)
}

// Same is structural/bitwise identity (SMT "="), used for "same value stored back" checks.
func (tb *TB) Same(a, b *Term) *Term {
	if a == b {
		return tb.True
	}
	if a.S != b.S {
		return tb.False
	}
	if a.IsConst() && b.IsConst() {
		if a.S.K == SFP {
			return tb.BoolC(math.Float64bits(a.F) == math.Float64bits(b.F))
		}
		return tb.BoolC(constEq(a, b))
	}
	if a.ID > b.ID {
		a, b = b, a
	}
	return tb.mk("=", BoolSort, "", a, b)
}

// ---------- arithmetic ----------

func (tb *TB) Zero(s Sort) *Term {
	switch s.K {
	case SBool:
		return tb.False
	case SBV:
		return tb.BVC(s.W, 0)
	case SFP:
		return tb.FPC(s.W, 0)
	case SInt:
		return tb.IntC(0)
	}
	return tb.RealC(0)
}

func isZero(t *Term) bool {
	if !t.IsConst() {
		return false
	}
	switch t.S.K {
	case SBV, SInt:
		return t.U == 0
	case SReal:
		return t.F == 0
	case SFP:
		return false // -0/+0 subtleties: do not simplify
	}
	return false
}
func isOne(t *Term) bool {
	if !t.IsConst() {
		return false
	}
	switch t.S.K {
	case SBV, SInt:
		return t.U == 1
	case SReal:
		return t.F == 1
	}
	return false
}

type DivZero struct{}

// Arith implements Go binary arithmetic/bitwise operators on equal-sorted scalars.
func (tb *TB) Arith(op token.Token, a, b *Term, signed bool) *Term {
	if op != token.SHL && op != token.SHR && a.S != b.S {
		panic(fmt.Sprintf("arith sort mismatch %v %v op %v", a.S, b.S, op))
	}
	if a.IsConst() && b.IsConst() {
		if r := tb.foldArith(op, a, b, signed); r != nil {
			return r
		}
	}
	// ite lifting over constants
	if tb.liftable(a) && b.IsConst() && op != token.QUO && op != token.REM {
		return tb.Ite(a.Args[0], tb.Arith(op, a.Args[1], b, signed), tb.Arith(op, a.Args[2], b, signed))
	}
	if tb.liftable(b) && a.IsConst() && op != token.QUO && op != token.REM {
		return tb.Ite(b.Args[0], tb.Arith(op, a, b.Args[1], signed), tb.Arith(op, a, b.Args[2], signed))
	}
	s := a.S
	switch s.K {
	case SBV:
		switch op {
		case token.ADD:
			if isZero(a) {
				return b
			}
			if isZero(b) {
				return a
			}
			// constants to the right, and (x + c1) + c2 -> x + (c1+c2): index arithmetic such as
			// (i + 1) - 1 then collapses back to i
			if a.IsConst() && !b.IsConst() {
				a, b = b, a
			}
			if b.IsConst() && a.Op == "bvadd" && a.Args[1].IsConst() {
				return tb.Arith(token.ADD, a.Args[0], tb.BVC(s.W, a.Args[1].U+b.U), signed)
			}
			return tb.mk("bvadd", s, "", a, b)
		case token.SUB:
			if isZero(b) {
				return a
			}
			if a == b {
				return tb.BVC(s.W, 0)
			}
			if b.IsConst() { // x - c  ->  x + (-c)
				return tb.Arith(token.ADD, a, tb.BVC(s.W, -b.U), signed)
			}
			return tb.mk("bvsub", s, "", a, b)
		case token.MUL:
			if isZero(a) || isZero(b) {
				return tb.BVC(s.W, 0)
			}
			if isOne(a) {
				return b
			}
			if isOne(b) {
				return a
			}
			return tb.mk("bvmul", s, "", a, b)
		case token.QUO:
			if isOne(b) {
				return a
			}
			if signed {
				return tb.mk("bvsdiv", s, "", a, b)
			}
			return tb.mk("bvudiv", s, "", a, b)
		case token.REM:
			if signed {
				return tb.mk("bvsrem", s, "", a, b)
			}
			return tb.mk("bvurem", s, "", a, b)
		case token.AND:
			if isZero(a) || isZero(b) {
				return tb.BVC(s.W, 0)
			}
			if b.IsConst() && b.U == mask(s.W) {
				return a
			}
			if a.IsConst() && a.U == mask(s.W) {
				return b
			}
			return tb.mk("bvand", s, "", a, b)
		case token.OR:
			if isZero(a) {
				return b
			}
			if isZero(b) {
				return a
			}
			if r := tb.orAsConcat(a, b); r != nil {
				return r
			}
			return tb.mk("bvor", s, "", a, b)
		case token.XOR:
			if isZero(a) {
				return b
			}
			if isZero(b) {
				return a
			}
			return tb.mk("bvxor", s, "", a, b)
		case token.AND_NOT:
			return tb.mk("bvand", s, "", a, tb.mk("bvnot", s, "", b))
		case token.SHL, token.SHR:
			// shift amount b is unsigned of any width: resize to a's width (saturating is not needed for const)
			if isZero(b) {
				return a
			}
			bb := tb.resizeShift(b, s.W)
			if op == token.SHL {
				return tb.mk("bvshl", s, "", a, bb)
			}
			if signed {
				return tb.mk("bvashr", s, "", a, bb)
			}
			return tb.mk("bvlshr", s, "", a, bb)
		}
	case SFP:
		switch op {
		case token.ADD:
			return tb.mk("fp.add", s, "RNE", a, b)
		case token.SUB:
			return tb.mk("fp.sub", s, "RNE", a, b)
		case token.MUL:
			return tb.mk("fp.mul", s, "RNE", a, b)
		case token.QUO:
			// x / (+-2^k) == x * (+-2^-k) exactly in IEEE arithmetic (same real value is rounded);
			// 64-bit fp.div is out of the solvers' reach, multiplication by a constant is not.
			if b.IsConst() && b.F != 0 && !math.IsInf(b.F, 0) && !math.IsNaN(b.F) {
				fr, _ := math.Frexp(math.Abs(b.F))
				inv := 1 / b.F
				if fr == 0.5 && inv != 0 && !math.IsInf(inv, 0) && 1/inv == b.F && (s.W == 64 || float64(float32(inv)) == inv) {
					return tb.Arith(token.MUL, a, tb.FPC(s.W, inv), signed)
				}
			}
			return tb.mk("fp.div", s, "RNE", a, b)
		}
	case SInt:
		switch op {
		case token.ADD:
			if isZero(a) {
				return b
			}
			if isZero(b) {
				return a
			}
			return tb.mk("+", s, "", a, b)
		case token.SUB:
			if isZero(b) {
				return a
			}
			if a == b {
				return tb.IntC(0)
			}
			return tb.mk("-", s, "", a, b)
		case token.MUL:
			if isZero(a) || isZero(b) {
				return tb.IntC(0)
			}
			if isOne(a) {
				return b
			}
			if isOne(b) {
				return a
			}
			return tb.mk("*", s, "", a, b)
		case token.QUO:
			if isOne(b) {
				return a
			}
			return tb.mk("godiv", s, "", a, b)
		case token.REM:
			return tb.mk("gorem", s, "", a, b)
		}
	case SReal:
		switch op {
		case token.ADD:
			if isZero(a) {
				return b
			}
			if isZero(b) {
				return a
			}
			return tb.mk("+", s, "", a, b)
		case token.SUB:
			if isZero(b) {
				return a
			}
			if a == b {
				return tb.RealC(0)
			}
			return tb.mk("-", s, "", a, b)
		case token.MUL:
			if isZero(a) || isZero(b) {
				return tb.RealC(0)
			}
			if isOne(a) {
				return b
			}
			if isOne(b) {
				return a
			}
			return tb.mk("*", s, "", a, b)
		case token.QUO:
			if isOne(b) {
				return a
			}
			return tb.mk("/", s, "", a, b)
		}
	}
	panic(fmt.Sprintf("unsupported arith %v on %v", op, s))
}

func (tb *TB) resizeShift(b *Term, w int) *Term {
	if b.S.K != SBV {
		panic("shift amount not BV")
	}
	if b.S.W == w {
		return b
	}
	if b.S.W < w {
		return tb.ZExt(b, w)
	}
	// wider shift count: saturate: if b >= w then w else low bits
	low := tb.Extract(b, w-1, 0)
	big := tb.Cmp(token.GEQ, b, tb.BVC(b.S.W, uint64(w)), false)
	return tb.Ite(big, tb.BVC(w, uint64(w)), low)
}

func (tb *TB) foldArith(op token.Token, a, b *Term, signed bool) *Term {
	s := a.S
	switch s.K {
	case SBV:
		w := s.W
		x, y := a.U, b.U
		sx, sy := a.SInt64(), b.SInt64()
		switch op {
		case token.ADD:
			return tb.BVC(w, x+y)
		case token.SUB:
			return tb.BVC(w, x-y)
		case token.MUL:
			return tb.BVC(w, x*y)
		case token.QUO:
			if y == 0 {
				return nil
			}
			if signed {
				if sy == -1 {
					return tb.BVC(w, uint64(-sx))
				}
				return tb.BVC(w, uint64(sx/sy))
			}
			return tb.BVC(w, x/y)
		case token.REM:
			if y == 0 {
				return nil
			}
			if signed {
				if sy == -1 {
					return tb.BVC(w, 0)
				}
				return tb.BVC(w, uint64(sx%sy))
			}
			return tb.BVC(w, x%y)
		case token.AND:
			return tb.BVC(w, x&y)
		case token.OR:
			return tb.BVC(w, x|y)
		case token.XOR:
			return tb.BVC(w, x^y)
		case token.AND_NOT:
			return tb.BVC(w, x&^y)
		case token.SHL:
			if y >= uint64(w) {
				return tb.BVC(w, 0)
			}
			return tb.BVC(w, x<<y)
		case token.SHR:
			if signed {
				if y >= 64 {
					y = 63
				}
				return tb.BVC(w, uint64(sx>>y))
			}
			if y >= uint64(w) {
				return tb.BVC(w, 0)
			}
			return tb.BVC(w, x>>y)
		}
	case SInt:
		x, y := int64(a.U), int64(b.U)
		switch op {
		case token.ADD:
			return tb.IntC(x + y)
		case token.SUB:
			return tb.IntC(x - y)
		case token.MUL:
			return tb.IntC(x * y)
		case token.QUO:
			if y == 0 {
				return nil
			}
			if y == -1 {
				return tb.IntC(-x)
			}
			return tb.IntC(x / y)
		case token.REM:
			if y == 0 {
				return nil
			}
			if y == -1 {
				return tb.IntC(0)
			}
			return tb.IntC(x % y)
		case token.AND:
			return tb.IntC(x & y)
		case token.OR:
			return tb.IntC(x | y)
		case token.XOR:
			return tb.IntC(x ^ y)
		case token.AND_NOT:
			return tb.IntC(x &^ y)
		case token.SHL:
			if y < 0 || y >= 64 {
				return tb.IntC(0)
			}
			return tb.IntC(x << uint(y))
		case token.SHR:
			if y >= 64 {
				y = 63
			}
			return tb.IntC(x >> uint(y))
		}
	case SFP, SReal:
		x, y := a.F, b.F
		var r float64
		switch op {
		case token.ADD:
			r = x + y
		case token.SUB:
			r = x - y
		case token.MUL:
			r = x * y
		case token.QUO:
			if s.K == SReal && y == 0 {
				return nil
			}
			r = x / y
		default:
			return nil
		}
		if s.K == SFP {
			if s.W == 32 {
				switch op {
				case token.ADD:
					r = float64(float32(x) + float32(y))
				case token.SUB:
					r = float64(float32(x) - float32(y))
				case token.MUL:
					r = float64(float32(x) * float32(y))
				case token.QUO:
					r = float64(float32(x) / float32(y))
				}
			}
			return tb.FPC(s.W, r)
		}
		if math.IsNaN(r) || math.IsInf(r, 0) {
			return nil
		}
		return tb.RealC(r)
	}
	return nil
}

func (tb *TB) Neg(a *Term) *Term {
	switch a.S.K {
	case SBV:
		if a.IsConst() {
			return tb.BVC(a.S.W, -a.U)
		}
		return tb.mk("bvneg", a.S, "", a)
	case SFP:
		if a.IsConst() {
			return tb.FPC(a.S.W, -a.F)
		}
		if a.Op == "fp.neg" {
			return a.Args[0]
		}
		return tb.mk("fp.neg", a.S, "", a)
	case SInt:
		if a.IsConst() {
			return tb.IntC(-int64(a.U))
		}
		return tb.mk("-", a.S, "", a)
	case SReal:
		if a.IsConst() {
			return tb.RealC(-a.F)
		}
		if a.Op == "-" && len(a.Args) == 1 {
			return a.Args[0]
		}
		return tb.mk("-", a.S, "", a)
	}
	panic("neg")
}

func (tb *TB) BitNot(a *Term) *Term {
	if a.S.K == SInt {
		if a.IsConst() {
			return tb.IntC(^int64(a.U))
		}
		// ^x = -x-1
		return tb.Arith(token.SUB, tb.Neg(a), tb.IntC(1), true)
	}
	if a.IsConst() {
		return tb.BVC(a.S.W, ^a.U)
	}
	return tb.mk("bvnot", a.S, "", a)
}

// Cmp implements <, <=, >, >= .
func (tb *TB) Cmp(op token.Token, a, b *Term, signed bool) *Term {
	switch op {
	case token.GTR:
		return tb.Cmp(token.LSS, b, a, signed)
	case token.GEQ:
		return tb.Cmp(token.LEQ, b, a, signed)
	case token.EQL:
		return tb.Eq(a, b)
	case token.NEQ:
		return tb.Not(tb.Eq(a, b))
	}
	if a.S != b.S {
		panic(fmt.Sprintf("cmp sort mismatch %v %v", a.S, b.S))
	}
	lt := op == token.LSS
	if a.S.K == SReal && (a.Rad != nil || b.Rad != nil) {
		// comparisons against a real square root are rewritten into polynomial form (sqrt-free):
		zero := tb.RealC(0)
		sq := func(x *Term) *Term { return tb.Arith(token.MUL, x, x, true) }
		switch {
		case a.Rad != nil && b.Rad != nil: // sqrt(x) ? sqrt(y)  <=>  x ? y
			return tb.Cmp(op, a.Rad, b.Rad, true)
		case a.Rad != nil: // sqrt(x) < b <=> b > 0 and x < b^2 ; sqrt(x) <= b <=> b >= 0 and x <= b^2
			if lt {
				return tb.And(tb.Cmp(token.LSS, zero, b, true), tb.Cmp(token.LSS, a.Rad, sq(b), true))
			}
			return tb.And(tb.Cmp(token.LEQ, zero, b, true), tb.Cmp(token.LEQ, a.Rad, sq(b), true))
		default: // a < sqrt(y) <=> a < 0 or a^2 < y ; a <= sqrt(y) <=> a <= 0 or a^2 <= y
			if lt {
				return tb.Or(tb.Cmp(token.LSS, a, zero, true), tb.Cmp(token.LSS, sq(a), b.Rad, true))
			}
			return tb.Or(tb.Cmp(token.LEQ, a, zero, true), tb.Cmp(token.LEQ, sq(a), b.Rad, true))
		}
	}
	if a.IsConst() && b.IsConst() {
		switch a.S.K {
		case SBV:
			if signed {
				if lt {
					return tb.BoolC(a.SInt64() < b.SInt64())
				}
				return tb.BoolC(a.SInt64() <= b.SInt64())
			}
			if lt {
				return tb.BoolC(a.U < b.U)
			}
			return tb.BoolC(a.U <= b.U)
		case SInt:
			if lt {
				return tb.BoolC(int64(a.U) < int64(b.U))
			}
			return tb.BoolC(int64(a.U) <= int64(b.U))
		default:
			if lt {
				return tb.BoolC(a.F < b.F)
			}
			return tb.BoolC(a.F <= b.F)
		}
	}
	if tb.liftable(a) && b.IsConst() {
		return tb.Ite(a.Args[0], tb.Cmp(op, a.Args[1], b, signed), tb.Cmp(op, a.Args[2], b, signed))
	}
	if tb.liftable(b) && a.IsConst() {
		return tb.Ite(b.Args[0], tb.Cmp(op, a, b.Args[1], signed), tb.Cmp(op, a, b.Args[2], signed))
	}
	if a == b && a.S.K != SFP {
		return tb.BoolC(!lt)
	}
	var o string
	switch a.S.K {
	case SBV:
		if signed {
			o = "bvslt"
			if !lt {
				o = "bvsle"
			}
		} else {
			o = "bvult"
			if !lt {
				o = "bvule"
			}
		}
	case SFP:
		o = "fp.lt"
		if !lt {
			o = "fp.leq"
		}
	default:
		o = "<"
		if !lt {
			o = "<="
		}
	}
	return tb.mk(o, BoolSort, "", a, b)
}

// ---------- BV structure ----------

func (tb *TB) Extract(a *Term, hi, lo int) *Term {
	w := hi - lo + 1
	if lo == 0 && w == a.S.W {
		return a
	}
	if a.IsConst() {
		return tb.BVC(w, a.U>>uint(lo))
	}
	if a.Op == "extract" {
		var h0, l0 int
		fmt.Sscanf(a.Name, "%d %d", &h0, &l0)
		return tb.Extract(a.Args[0], hi+l0, lo+l0)
	}
	if (a.Op == "zero_extend" || a.Op == "sign_extend") && hi < a.Args[0].S.W {
		return tb.Extract(a.Args[0], hi, lo)
	}
	if a.Op == "bvlshr" && a.Args[1].IsConst() {
		k := int(a.Args[1].U)
		if hi+k < a.S.W {
			return tb.Extract(a.Args[0], hi+k, lo+k)
		}
	}
	if a.Op == "bvshl" && a.Args[1].IsConst() {
		k := int(a.Args[1].U)
		if lo >= k {
			return tb.Extract(a.Args[0], hi-k, lo-k)
		}
		if hi < k {
			return tb.BVC(w, 0)
		}
	}
	if a.Op == "bvor" || a.Op == "bvand" || a.Op == "bvxor" {
		// bitwise operators commute with extraction; useful when one side becomes constant
		x, y := tb.Extract(a.Args[0], hi, lo), tb.Extract(a.Args[1], hi, lo)
		if x.IsConst() || y.IsConst() {
			switch a.Op {
			case "bvor":
				return tb.Arith(token.OR, x, y, false)
			case "bvand":
				return tb.Arith(token.AND, x, y, false)
			default:
				return tb.Arith(token.XOR, x, y, false)
			}
		}
	}
	if a.Op == "concat" {
		lw := a.Args[1].S.W
		if hi < lw {
			return tb.Extract(a.Args[1], hi, lo)
		}
		if lo >= lw {
			return tb.Extract(a.Args[0], hi-lw, lo-lw)
		}
	}
	if tb.liftable1(a) {
		return tb.Ite(a.Args[0], tb.Extract(a.Args[1], hi, lo), tb.Extract(a.Args[2], hi, lo))
	}
	return tb.mk("extract", BVSort(w), fmt.Sprintf("%d %d", hi, lo), a)
}
func (tb *TB) ZExt(a *Term, w int) *Term {
	if a.S.W == w {
		return a
	}
	if a.IsConst() {
		return tb.BVC(w, a.U)
	}
	if tb.liftable1(a) {
		return tb.Ite(a.Args[0], tb.ZExt(a.Args[1], w), tb.ZExt(a.Args[2], w))
	}
	return tb.mk("zero_extend", BVSort(w), fmt.Sprint(w-a.S.W), a)
}
func (tb *TB) SExt(a *Term, w int) *Term {
	if a.S.W == w {
		return a
	}
	if a.IsConst() {
		return tb.BVC(w, uint64(a.SInt64()))
	}
	if tb.liftable1(a) {
		return tb.Ite(a.Args[0], tb.SExt(a.Args[1], w), tb.SExt(a.Args[2], w))
	}
	return tb.mk("sign_extend", BVSort(w), fmt.Sprint(w-a.S.W), a)
}
func (tb *TB) Concat(hi, lo *Term) *Term {
	if hi.IsConst() && lo.IsConst() && hi.S.W+lo.S.W <= 64 {
		return tb.BVC(hi.S.W+lo.S.W, hi.U<<uint(lo.S.W)|lo.U)
	}
	if hi.Op == "extract" && lo.Op == "extract" && hi.Args[0] == lo.Args[0] {
		var h1, l1, h2, l2 int
		fmt.Sscanf(hi.Name, "%d %d", &h1, &l1)
		fmt.Sscanf(lo.Name, "%d %d", &h2, &l2)
		if l1 == h2+1 {
			return tb.Extract(hi.Args[0], h1, l2)
		}
	}
	return tb.mk("concat", BVSort(hi.S.W+lo.S.W), "", hi, lo)
}

type lane struct {
	off, w int
	t      *Term
}

// lanesOf describes t as disjoint pieces placed at bit offsets with zeros elsewhere (nil,false if t is not of
// that shape). A plain term is a single full-width lane.
func (tb *TB) lanesOf(t *Term) ([]lane, bool, bool) {
	W := t.S.W
	switch {
	case t.IsConst():
		if t.U == 0 {
			return nil, true, true
		}
		return []lane{{0, W, t}}, true, false
	case t.Op == "zero_extend":
		l, ok, _ := tb.lanesOf(t.Args[0])
		return l, ok, true
	case t.Op == "bvshl" && t.Args[1].IsConst():
		k := int(t.Args[1].U)
		l, ok, _ := tb.lanesOf(t.Args[0])
		if !ok {
			return nil, false, false
		}
		var out []lane
		for _, x := range l {
			if x.off+k >= W {
				continue
			}
			if x.off+k+x.w > W {
				x.t = tb.Extract(x.t, W-x.off-k-1, 0)
				x.w = W - x.off - k
			}
			out = append(out, lane{x.off + k, x.w, x.t})
		}
		return out, true, true
	case t.Op == "concat":
		lo, ok1, _ := tb.lanesOf(t.Args[1])
		hi, ok2, _ := tb.lanesOf(t.Args[0])
		if !ok1 || !ok2 {
			return nil, false, false
		}
		out := append([]lane{}, lo...)
		for _, x := range hi {
			out = append(out, lane{x.off + t.Args[1].S.W, x.w, x.t})
		}
		return out, true, true
	case t.Op == "bvor":
		a, ok1, _ := tb.lanesOf(t.Args[0])
		b, ok2, _ := tb.lanesOf(t.Args[1])
		if ok1 && ok2 && !lanesOverlap(a, b) {
			return append(append([]lane{}, a...), b...), true, true
		}
	}
	return []lane{{0, W, t}}, true, false
}

func lanesOverlap(a, b []lane) bool {
	for _, x := range a {
		for _, y := range b {
			if x.off < y.off+y.w && y.off < x.off+x.w {
				return true
			}
		}
	}
	return false
}

// orAsConcat rewrites a bitwise OR of non-overlapping shifted/zero-extended pieces (the usual way of assembling
// a word from bytes) into a concatenation, so that byte-wise round trips collapse syntactically.
func (tb *TB) orAsConcat(a, b *Term) *Term {
	la, ok1, s1 := tb.lanesOf(a)
	lb, ok2, s2 := tb.lanesOf(b)
	if !ok1 || !ok2 || !(s1 || s2) || lanesOverlap(la, lb) {
		return nil
	}
	all := append(append([]lane{}, la...), lb...)
	// sort by offset (few elements)
	for i := 1; i < len(all); i++ {
		for j := i; j > 0 && all[j].off < all[j-1].off; j-- {
			all[j], all[j-1] = all[j-1], all[j]
		}
	}
	W := a.S.W
	var res *Term
	pos := 0
	push := func(p *Term) {
		if res == nil {
			res = p
		} else {
			res = tb.Concat(p, res)
		}
	}
	for _, x := range all {
		if x.off > pos {
			push(tb.BVC(x.off-pos, 0))
		}
		push(x.t)
		pos = x.off + x.w
	}
	if pos < W {
		push(tb.BVC(W-pos, 0))
	}
	if res == nil || res.S.W != W {
		return nil
	}
	return res
}

// ConvInt converts an integer term to an integer of width w (Go conversion semantics).
func (tb *TB) ConvInt(a *Term, fromSigned bool, w int) *Term {
	if a.S.K == SInt {
		return a // math mode: no narrowing (stated assumption: no overflow)
	}
	if a.S.W == w {
		return a
	}
	if a.S.W > w {
		return tb.Extract(a, w-1, 0)
	}
	if fromSigned {
		return tb.SExt(a, w)
	}
	return tb.ZExt(a, w)
}

// ---------- floats ----------

func (tb *TB) FloatToFloat(a *Term, w int) *Term {
	if a.S.K == SReal {
		return a
	}
	if a.S.W == w {
		return a
	}
	if a.IsConst() {
		return tb.FPC(w, a.F)
	}
	if tb.liftable1(a) {
		return tb.Ite(a.Args[0], tb.FloatToFloat(a.Args[1], w), tb.FloatToFloat(a.Args[2], w))
	}
	if w == 64 {
		return tb.mk("to_fp64", F64Sort, "", a)
	}
	if a.Op == "to_fp64" { // float32 -> float64 -> float32 is the identity
		return a.Args[0]
	}
	return tb.mk("to_fp32", F32Sort, "", a)
}

func (tb *TB) IntToFloat(a *Term, signed bool, w int, math_ bool) *Term {
	if a.S.K == SInt {
		if a.IsConst() {
			return tb.RealC(float64(int64(a.U)))
		}
		return tb.mk("to_real", RealSort, "", a)
	}
	if a.IsConst() {
		if signed {
			return tb.FPC(w, float64(a.SInt64()))
		}
		return tb.FPC(w, float64(a.U))
	}
	if tb.liftable1(a) {
		return tb.Ite(a.Args[0], tb.IntToFloat(a.Args[1], signed, w, math_), tb.IntToFloat(a.Args[2], signed, w, math_))
	}
	// canonical form: every integer narrower than 64 bits is first widened to a signed 64-bit value, so that
	// float64(uint8(b)), float64(int64(b)) and float64(int(b)) are the same term
	if a.S.W < 64 {
		if signed {
			return tb.IntToFloat(tb.SExt(a, 64), true, w, math_)
		}
		return tb.IntToFloat(tb.ZExt(a, 64), true, w, math_)
	}
	op := "sbv_to_fp"
	if !signed {
		op = "ubv_to_fp"
	}
	return tb.mk(op, Sort{SFP, w}, "", a)
}

// FloatToInt truncates toward zero. For BV results out-of-range values follow the solver's
// (unspecified) semantics; callers add range obligations when relevant.
func (tb *TB) FloatToInt(a *Term, signed bool, w int) *Term {
	if a.S.K == SReal {
		if a.IsConst() {
			return tb.IntC(int64(a.F))
		}
		// trunc(x) = ite(x>=0, floor(x), -floor(-x))
		fl := tb.mk("to_int", IntSort, "", a)
		nfl := tb.Neg(tb.mk("to_int", IntSort, "", tb.Neg(a)))
		return tb.Ite(tb.Cmp(token.GEQ, a, tb.RealC(0), true), fl, nfl)
	}
	if a.IsConst() && !math.IsNaN(a.F) && math.Abs(a.F) < 9e18 {
		if signed {
			return tb.BVC(w, uint64(int64(a.F)))
		}
		if a.F >= 0 {
			return tb.BVC(w, uint64(a.F))
		}
		return tb.BVC(w, uint64(int64(a.F)))
	}
	if tb.liftable(a) {
		return tb.Ite(a.Args[0], tb.FloatToInt(a.Args[1], signed, w), tb.FloatToInt(a.Args[2], signed, w))
	}
	// amd64: convert to int64 (truncating) then narrow
	if signed || w < 64 {
		t := tb.mk("fp_to_sbv", BVSort(64), "64", a)
		return tb.ConvInt(t, true, w)
	}
	return tb.mk("fp_to_ubv", BVSort(64), "64", a)
}

func (tb *TB) FUn(op string, a *Term) *Term {
	// op: abs sqrt floor ceil trunc roundaway isnan isinf
	if a.IsConst() {
		f := a.F
		switch op {
		case "abs":
			return tb.fconst(a.S, math.Abs(f))
		case "sqrt":
			if a.S.K == SReal && f < 0 {
				break
			}
			if a.S.K == SReal {
				r := math.Sqrt(f)
				if r*r != f { // inexact: keep symbolic in math mode
					break
				}
				return tb.RealC(r)
			}
			if a.S.W == 32 {
				return tb.FPC(32, float64(float32(math.Sqrt(f))))
			}
			return tb.FPC(64, math.Sqrt(f))
		case "floor":
			return tb.fconst(a.S, math.Floor(f))
		case "ceil":
			return tb.fconst(a.S, math.Ceil(f))
		case "trunc":
			return tb.fconst(a.S, math.Trunc(f))
		case "roundaway":
			return tb.fconst(a.S, math.Round(f))
		case "isnan":
			return tb.BoolC(math.IsNaN(f))
		case "isinf":
			return tb.BoolC(math.IsInf(f, 0))
		}
	}
	if (tb.liftable(a) && op != "sqrt") || (tb.liftable1(a) && (op == "isnan" || op == "isinf")) {
		return tb.Ite(a.Args[0], tb.FUn(op, a.Args[1]), tb.FUn(op, a.Args[2]))
	}
	if op == "isnan" {
		switch a.Op {
		case "to_fp64", "to_fp32", "fp.neg", "fp.abs":
			return tb.FUn("isnan", a.Args[0])
		case "sbv_to_fp", "ubv_to_fp", "half_to_fp64x":
			return tb.False
		}
	}
	if op == "isinf" && a.Op == "to_fp64" {
		return tb.FUn("isinf", a.Args[0])
	}
	if a.S.K == SReal {
		switch op {
		case "abs":
			return tb.Ite(tb.Cmp(token.GEQ, a, tb.RealC(0), true), a, tb.Neg(a))
		case "floor":
			return tb.mk("to_real", RealSort, "", tb.mk("to_int", IntSort, "", a))
		case "ceil":
			return tb.Neg(tb.mk("to_real", RealSort, "", tb.mk("to_int", IntSort, "", tb.Neg(a))))
		case "trunc":
			return tb.mk("to_real", RealSort, "", tb.FloatToInt(a, true, 64))
		case "roundaway":
			// round half away from zero
			half := tb.RealC(0.5)
			pos := tb.mk("to_real", RealSort, "", tb.mk("to_int", IntSort, "", tb.Arith(token.ADD, a, half, true)))
			neg := tb.Neg(tb.mk("to_real", RealSort, "", tb.mk("to_int", IntSort, "", tb.Arith(token.ADD, tb.Neg(a), half, true))))
			return tb.Ite(tb.Cmp(token.GEQ, a, tb.RealC(0), true), pos, neg)
		case "isnan", "isinf":
			return tb.False
		case "sqrt":
			sv := tb.SideVar(fmt.Sprintf("$sqrt%d", a.ID), RealSort, func(v *Term) *Term {
				return tb.And(tb.Cmp(token.GEQ, v, tb.RealC(0), true), tb.Eq(tb.Arith(token.MUL, v, v, true), a))
			})
			sv.Rad = a
			return sv
		}
	}
	switch op {
	case "abs":
		return tb.mk("fp.abs", a.S, "", a)
	case "sqrt":
		return tb.mk("fp.sqrt", a.S, "RNE", a)
	case "floor":
		return tb.mk("fp.roundToIntegral", a.S, "RTN", a)
	case "ceil":
		return tb.mk("fp.roundToIntegral", a.S, "RTP", a)
	case "trunc":
		return tb.mk("fp.roundToIntegral", a.S, "RTZ", a)
	case "roundaway":
		return tb.mk("fp.roundToIntegral", a.S, "RNA", a)
	case "isnan":
		return tb.mk("fp.isNaN", BoolSort, "", a)
	case "isinf":
		return tb.mk("fp.isInfinite", BoolSort, "", a)
	}
	panic("FUn " + op)
}

func (tb *TB) fconst(s Sort, f float64) *Term {
	if s.K == SReal {
		return tb.RealC(f)
	}
	return tb.FPC(s.W, f)
}

// FloatBits reinterprets a float as its IEEE bit-vector.
func (tb *TB) FloatBits(a *Term) *Term {
	if a.S.K != SFP {
		panic("FloatBits in math mode")
	}
	if a.IsConst() {
		if a.S.W == 32 {
			return tb.BVC(32, uint64(math.Float32bits(float32(a.F))))
		}
		return tb.BVC(64, math.Float64bits(a.F))
	}
	if a.Op == "bits_to_fp" {
		return a.Args[0] // NaN payloads: stated assumption (non-NaN data)
	}
	if tb.liftable1(a) {
		return tb.Ite(a.Args[0], tb.FloatBits(a.Args[1]), tb.FloatBits(a.Args[2]))
	}
	return tb.mk("fp.to_ieee_bv", BVSort(a.S.W), "", a)
}
func (tb *TB) FloatFromBits(a *Term) *Term {
	w := a.S.W
	if a.IsConst() {
		if w == 32 {
			return tb.FPC(32, float64(math.Float32frombits(uint32(a.U))))
		}
		return tb.FPC(64, math.Float64frombits(a.U))
	}
	if a.Op == "fp.to_ieee_bv" {
		return a.Args[0]
	}
	if tb.liftable1(a) {
		return tb.Ite(a.Args[0], tb.FloatFromBits(a.Args[1]), tb.FloatFromBits(a.Args[2]))
	}
	return tb.mk("bits_to_fp", Sort{SFP, w}, "", a)
}

// HalfToFloat64 decodes an IEEE binary16 bit pattern (reference semantics supplied by the solver's FP theory).
func (tb *TB) HalfToFloat64(a *Term) *Term {
	if a.IsConst() {
		return tb.FPC(64, halfBitsToFloat(uint16(a.U)))
	}
	return tb.mk("half_to_fp64", F64Sort, "", a)
}

func halfBitsToFloat(h uint16) float64 {
	sign := uint32(h>>15) & 1
	exp := int((h >> 10) & 0x1f)
	man := uint32(h & 0x3ff)
	var f float64
	switch {
	case exp == 0:
		f = math.Ldexp(float64(man), -24)
	case exp == 31:
		if man != 0 {
			return math.NaN()
		}
		f = math.Inf(1)
	default:
		f = math.Ldexp(float64(man|0x400), exp-25)
	}
	if sign == 1 {
		f = -f
	}
	return f
}

// ---------- printing ----------

func ratString(f float64) string {
	r := new(big.Rat)
	r.SetFloat64(f)
	neg := r.Sign() < 0
	if neg {
		r.Neg(r)
	}
	var s string
	if r.IsInt() {
		s = r.Num().String() + ".0"
	} else {
		s = "(/ " + r.Num().String() + ".0 " + r.Denom().String() + ".0)"
	}
	if neg {
		s = "(- " + s + ")"
	}
	return s
}

func constSMT(t *Term) string {
	switch t.S.K {
	case SBool:
		if t.B {
			return "true"
		}
		return "false"
	case SBV:
		if t.S.W%4 == 0 {
			return fmt.Sprintf("#x%0*x", t.S.W/4, t.U)
		}
		return fmt.Sprintf("#b%0*b", t.S.W, t.U)
	case SInt:
		v := int64(t.U)
		if v < 0 {
			if v == math.MinInt64 {
				return "(- 9223372036854775808)"
			}
			return fmt.Sprintf("(- %d)", -v)
		}
		return fmt.Sprint(v)
	case SReal:
		return ratString(t.F)
	case SFP:
		if t.S.W == 32 {
			b := math.Float32bits(float32(t.F))
			return fmt.Sprintf("(fp #b%01b #b%08b #b%023b)", b>>31, (b>>23)&0xff, b&0x7fffff)
		}
		b := math.Float64bits(t.F)
		return fmt.Sprintf("(fp #b%01b #b%011b #b%052b)", b>>63, (b>>52)&0x7ff, b&((1<<52)-1))
	}
	return "?"
}

func varSMT(name string) string {
	return "|" + strings.NewReplacer("|", "_", "\\", "_").Replace(name) + "|"
}

func (t *Term) ref() string {
	switch t.Op {
	case "const":
		return constSMT(t)
	case "var":
		return varSMT(t.Name)
	}
	return fmt.Sprintf("t%d", t.ID)
}

// body renders the defining expression of a non-leaf term.
func (t *Term) body() string {
	a := func(i int) string { return t.Args[i].ref() }
	switch t.Op {
	case "not", "and", "or", "ite", "=", "fp.eq", "fp.lt", "fp.leq", "<", "<=",
		"bvadd", "bvsub", "bvmul", "bvsdiv", "bvudiv", "bvsrem", "bvurem", "bvand", "bvor", "bvxor", "bvnot", "bvneg",
		"bvshl", "bvlshr", "bvashr", "bvslt", "bvsle", "bvult", "bvule", "concat",
		"fp.neg", "fp.abs", "fp.isNaN", "fp.isInfinite", "+", "*", "/", "to_real", "to_int", "fp.to_ieee_bv":
		parts := []string{t.Op}
		for i := range t.Args {
			parts = append(parts, a(i))
		}
		return "(" + strings.Join(parts, " ") + ")"
	case "-":
		if len(t.Args) == 1 {
			return "(- " + a(0) + ")"
		}
		return "(- " + a(0) + " " + a(1) + ")"
	case "godiv": // truncated division
		x, y := a(0), a(1)
		return fmt.Sprintf("(ite (>= %s 0) (div %s %s) (- (div (- %s) %s)))", x, x, y, x, y)
	case "gorem":
		x, y := a(0), a(1)
		return fmt.Sprintf("(ite (>= %s 0) (mod %s %s) (- (mod (- %s) %s)))", x, x, y, x, y)
	case "fp.add", "fp.sub", "fp.mul", "fp.div", "fp.sqrt", "fp.roundToIntegral":
		parts := []string{t.Op, t.Name}
		for i := range t.Args {
			parts = append(parts, a(i))
		}
		return "(" + strings.Join(parts, " ") + ")"
	case "extract":
		return "((_ extract " + t.Name + ") " + a(0) + ")"
	case "zero_extend", "sign_extend":
		return "((_ " + t.Op + " " + t.Name + ") " + a(0) + ")"
	case "to_fp64":
		return "((_ to_fp 11 53) RNE " + a(0) + ")"
	case "to_fp32":
		return "((_ to_fp 8 24) RNE " + a(0) + ")"
	case "sbv_to_fp":
		if t.S.W == 32 {
			return "((_ to_fp 8 24) RNE " + a(0) + ")"
		}
		return "((_ to_fp 11 53) RNE " + a(0) + ")"
	case "ubv_to_fp":
		if t.S.W == 32 {
			return "((_ to_fp_unsigned 8 24) RNE " + a(0) + ")"
		}
		return "((_ to_fp_unsigned 11 53) RNE " + a(0) + ")"
	case "fp_to_sbv":
		return "((_ fp.to_sbv " + t.Name + ") RTZ " + a(0) + ")"
	case "fp_to_ubv":
		return "((_ fp.to_ubv " + t.Name + ") RTZ " + a(0) + ")"
	case "half_to_fp64":
		return "((_ to_fp 11 53) RNE ((_ to_fp 5 11) " + a(0) + "))"
	case "bits_to_fp":
		if t.S.W == 32 {
			return "((_ to_fp 8 24) " + a(0) + ")"
		}
		return "((_ to_fp 11 53) " + a(0) + ")"
	}
	panic("body: unknown op " + t.Op)
}
