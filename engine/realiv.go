package main

// Affine forms over the reals (math mode): a cheap, exact pre-filter in front of the solver.
//
// A real term is brought into the form  c + sum k_i * a_i  with rational c, k_i (big.Rat, so float64 constants are
// exact) over atoms a_i: input variables with known box bounds (the +-real_limit of zz.Float64 and literals of the
// form x <= c / x >= c on the path condition) and opaque non-linear sub-terms (products, quotients, undecided ite,
// square-root side variables) whose range is bounded by interval arithmetic over their operands. A comparison is
// answered without the solver only when the extreme values of (lhs - rhs) over the box settle it; everything else
// still goes to the solver. The verdict is sound: it under-approximates what the solver would prove (the box is a
// consequence of the path condition), it never decides a comparison the path condition leaves open.

import (
	"fmt"
	"go/token"
	"math"
	"math/big"
	"strconv"
)

type ratIv struct{ lo, hi *big.Rat } // nil = unbounded on that side

func ratOf(f float64) *big.Rat {
	if math.IsNaN(f) || math.IsInf(f, 0) {
		return nil
	}
	return new(big.Rat).SetFloat64(f)
}

func (it *Interp) realivReset() {
	it.realRange = map[*Term]ratIv{}
	it.linMemo = map[*Term]*linForm{}
	it.atomMemo = map[*Term]*ratIv{}
}

func (it *Interp) setRealRange(v *Term, lo, hi *big.Rat) {
	cur := it.realRange[v]
	if lo != nil && (cur.lo == nil || lo.Cmp(cur.lo) > 0) {
		cur.lo = lo
	}
	if hi != nil && (cur.hi == nil || hi.Cmp(cur.hi) < 0) {
		cur.hi = hi
	}
	it.realRange[v] = cur
	// atom ranges derived under the old box stay sound (the box only shrinks) but are dropped so that later
	// comparisons profit from the tighter box; polynomial forms do not depend on the box except through decided
	// ite conditions, which stay decided
	if len(it.atomMemo) > 0 {
		it.atomMemo = map[*Term]*ratIv{}
	}
}

// noteRealBound records box bounds from a path-condition literal.
func (it *Interp) noteRealBound(c *Term) {
	if it.mode != Math || it.realRange == nil {
		return
	}
	isVar := func(t *Term) bool { return t.Op == "var" && t.Rad == nil && t.S.K == SReal }
	switch c.Op {
	case "and":
		for _, a := range c.Args {
			it.noteRealBound(a)
		}
	case "<", "<=":
		a, b := c.Args[0], c.Args[1]
		if isVar(a) && b.IsConst() {
			it.setRealRange(a, nil, ratOf(b.F))
		} else if isVar(b) && a.IsConst() {
			it.setRealRange(b, ratOf(a.F), nil)
		}
	case "not":
		d := c.Args[0]
		if d.Op == "<" || d.Op == "<=" { // not (a < b)  =>  a >= b
			a, b := d.Args[0], d.Args[1]
			if isVar(a) && b.IsConst() {
				it.setRealRange(a, ratOf(b.F), nil)
			} else if isVar(b) && a.IsConst() {
				it.setRealRange(b, nil, ratOf(a.F))
			}
		}
	case "=":
		a, b := c.Args[0], c.Args[1]
		if isVar(a) && b.IsConst() {
			it.setRealRange(a, ratOf(b.F), ratOf(b.F))
		} else if isVar(b) && a.IsConst() {
			it.setRealRange(b, ratOf(a.F), ratOf(a.F))
		}
	}
}

// a polynomial with rational coefficients over atoms; the key of a monomial is its canonical spelling
type monoFactor struct {
	a *Term
	p int
}
type polyTerm struct {
	k *big.Rat
	m []monoFactor // sorted by atom ID; empty = constant term
}
type linForm struct {
	t map[string]*polyTerm
}

const (
	polyMaxTerms  = 400
	polyMaxDegree = 12
)

func monoKey(m []monoFactor) string {
	b := make([]byte, 0, len(m)*8)
	for _, f := range m {
		b = strconv.AppendInt(b, int64(f.a.ID), 36)
		b = append(b, '^')
		b = strconv.AppendInt(b, int64(f.p), 10)
		b = append(b, ' ')
	}
	return string(b)
}

func monoMul(x, y []monoFactor) ([]monoFactor, int) {
	r := make([]monoFactor, 0, len(x)+len(y))
	i, j, deg := 0, 0, 0
	for i < len(x) || j < len(y) {
		switch {
		case j >= len(y) || (i < len(x) && x[i].a.ID < y[j].a.ID):
			r = append(r, x[i])
			i++
		case i >= len(x) || y[j].a.ID < x[i].a.ID:
			r = append(r, y[j])
			j++
		default:
			r = append(r, monoFactor{x[i].a, x[i].p + y[j].p})
			i++
			j++
		}
		deg += r[len(r)-1].p
	}
	return r, deg
}

func polyConst(q *big.Rat) *linForm {
	f := &linForm{t: map[string]*polyTerm{}}
	if q.Sign() != 0 {
		f.t[""] = &polyTerm{k: q}
	}
	return f
}

func (f *linForm) constPart() *big.Rat {
	if t, ok := f.t[""]; ok {
		return t.k
	}
	return new(big.Rat)
}

func (f *linForm) scale(q *big.Rat) *linForm {
	r := &linForm{t: make(map[string]*polyTerm, len(f.t))}
	if q.Sign() == 0 {
		return r
	}
	for key, t := range f.t {
		r.t[key] = &polyTerm{k: new(big.Rat).Mul(t.k, q), m: t.m}
	}
	return r
}

func (f *linForm) add(g *linForm, sign int) *linForm {
	r := &linForm{t: make(map[string]*polyTerm, len(f.t)+len(g.t))}
	for key, t := range f.t {
		r.t[key] = t
	}
	for key, t := range g.t {
		cur, ok := r.t[key]
		var n *big.Rat
		if !ok {
			n = new(big.Rat).Set(t.k)
			if sign < 0 {
				n.Neg(n)
			}
		} else if sign > 0 {
			n = new(big.Rat).Add(cur.k, t.k)
		} else {
			n = new(big.Rat).Sub(cur.k, t.k)
		}
		if n.Sign() == 0 {
			delete(r.t, key)
		} else {
			r.t[key] = &polyTerm{k: n, m: t.m}
		}
	}
	return r
}

// mul returns nil when the product would be too large (the caller then treats the product as an opaque atom).
func (f *linForm) mul(g *linForm) *linForm {
	if len(f.t)*len(g.t) > 4*polyMaxTerms {
		return nil
	}
	r := &linForm{t: make(map[string]*polyTerm, len(f.t)*len(g.t))}
	for _, x := range f.t {
		for _, y := range g.t {
			m, deg := monoMul(x.m, y.m)
			if deg > polyMaxDegree {
				return nil
			}
			key := monoKey(m)
			k := new(big.Rat).Mul(x.k, y.k)
			if cur, ok := r.t[key]; ok {
				k.Add(k, cur.k)
			}
			if k.Sign() == 0 {
				delete(r.t, key)
			} else {
				r.t[key] = &polyTerm{k: k, m: m}
			}
		}
	}
	if len(r.t) > polyMaxTerms {
		return nil
	}
	return r
}

func (f *linForm) isConst() bool {
	if len(f.t) == 0 {
		return true
	}
	_, ok := f.t[""]
	return ok && len(f.t) == 1
}

// lin returns the polynomial form of a real term (nil when the term is outside the fragment or too large).
func (it *Interp) lin(t *Term) *linForm {
	if t.S.K != SReal {
		return nil
	}
	if t.IsConst() {
		q := ratOf(t.F)
		if q == nil {
			return nil
		}
		return polyConst(q)
	}
	if f, ok := it.linMemo[t]; ok {
		return f
	}
	f := it.lin1(t)
	if f != nil && len(f.t) > polyMaxTerms {
		f = nil
	}
	it.linMemo[t] = f
	return f
}

func (it *Interp) atom(t *Term) *linForm {
	m := []monoFactor{{t, 1}}
	return &linForm{t: map[string]*polyTerm{monoKey(m): {k: big.NewRat(1, 1), m: m}}}
}

func (it *Interp) lin1(t *Term) *linForm {
	switch t.Op {
	case "var":
		return it.atom(t)
	case "+":
		a, b := it.lin(t.Args[0]), it.lin(t.Args[1])
		if a == nil || b == nil {
			return nil
		}
		return a.add(b, 1)
	case "-":
		if len(t.Args) == 1 {
			a := it.lin(t.Args[0])
			if a == nil {
				return nil
			}
			return a.scale(big.NewRat(-1, 1))
		}
		a, b := it.lin(t.Args[0]), it.lin(t.Args[1])
		if a == nil || b == nil {
			return nil
		}
		return a.add(b, -1)
	case "*":
		a, b := it.lin(t.Args[0]), it.lin(t.Args[1])
		if a == nil || b == nil {
			return nil
		}
		if p := a.mul(b); p != nil {
			return p
		}
		return it.atom(t)
	case "/":
		a, b := it.lin(t.Args[0]), it.lin(t.Args[1])
		if a == nil || b == nil {
			return nil
		}
		if b.isConst() {
			c := b.constPart()
			if c.Sign() == 0 {
				return nil
			}
			return a.scale(new(big.Rat).Inv(c))
		}
		// a/b with b bounded away from zero: a * (1/b), the reciprocal being one atom shared by every quotient
		// with that denominator (keeps the correlation between e.g. the three components of a normalised vector)
		if bb := it.formBounds(b); bb.lo != nil && bb.hi != nil && (bb.lo.Sign() > 0 || bb.hi.Sign() < 0) {
			inv := it.tb.Arith(token.QUO, it.tb.RealC(1), t.Args[1], true)
			if inv.Op == "/" {
				if p := a.mul(it.atom(inv)); p != nil {
					return p
				}
			}
		}
		return it.atom(t)
	case "ite":
		if v, ok := it.lookupKnown(t.Args[0]); ok {
			if v {
				return it.lin(t.Args[1])
			}
			return it.lin(t.Args[2])
		}
		if v, ok := it.intervalDecide(t.Args[0]); ok {
			if v {
				return it.lin(t.Args[1])
			}
			return it.lin(t.Args[2])
		}
		return it.atom(t)
	}
	return nil
}

func powIv(x ratIv, p int) ratIv {
	r := x
	for i := 1; i < p; i++ {
		r = mulIv(r, x)
	}
	if p%2 == 0 && (r.lo == nil || r.lo.Sign() < 0) {
		r.lo = new(big.Rat)
	}
	return r
}

// formBounds: enclosure of a polynomial over the box (monomial by monomial; exact for a single monomial per sign
// pattern, conservative otherwise).
func (it *Interp) formBounds(f *linForm) ratIv {
	lo, hi := new(big.Rat), new(big.Rat)
	loOK, hiOK := true, true
	for _, t := range f.t {
		r := ratIv{big.NewRat(1, 1), big.NewRat(1, 1)}
		for _, mf := range t.m {
			r = mulIv(r, powIv(it.atomRange(mf.a), mf.p))
		}
		var forLo, forHi *big.Rat
		if t.k.Sign() > 0 {
			forLo, forHi = r.lo, r.hi
		} else {
			forLo, forHi = r.hi, r.lo
		}
		if loOK {
			if forLo == nil {
				loOK = false
			} else {
				lo.Add(lo, new(big.Rat).Mul(t.k, forLo))
			}
		}
		if hiOK {
			if forHi == nil {
				hiOK = false
			} else {
				hi.Add(hi, new(big.Rat).Mul(t.k, forHi))
			}
		}
		if !loOK && !hiOK {
			break
		}
	}
	var r ratIv
	if loOK {
		r.lo = lo
	}
	if hiOK {
		r.hi = hi
	}
	return r
}

func (it *Interp) termBounds(t *Term) ratIv {
	f := it.lin(t)
	if f == nil {
		return ratIv{}
	}
	return it.formBounds(f)
}

// atomRange: box of an input variable, or interval bounds of an opaque non-linear term.
func (it *Interp) atomRange(a *Term) ratIv {
	if a.Op == "var" && a.Rad == nil {
		return it.realRange[a]
	}
	if r, ok := it.atomMemo[a]; ok {
		return *r
	}
	it.atomMemo[a] = &ratIv{} // cycle / re-entrancy guard
	r := it.atomRange1(a)
	it.atomMemo[a] = &r
	return r
}

func mulIv(x, y ratIv) ratIv {
	if x.lo == nil || x.hi == nil || y.lo == nil || y.hi == nil {
		// half-bounded products: only the sign-definite cases are worth having
		if x.lo != nil && y.lo != nil && x.lo.Sign() >= 0 && y.lo.Sign() >= 0 {
			r := ratIv{lo: new(big.Rat).Mul(x.lo, y.lo)}
			if x.hi != nil && y.hi != nil {
				r.hi = new(big.Rat).Mul(x.hi, y.hi)
			}
			return r
		}
		return ratIv{}
	}
	c := []*big.Rat{new(big.Rat).Mul(x.lo, y.lo), new(big.Rat).Mul(x.lo, y.hi), new(big.Rat).Mul(x.hi, y.lo), new(big.Rat).Mul(x.hi, y.hi)}
	lo, hi := c[0], c[0]
	for _, v := range c[1:] {
		if v.Cmp(lo) < 0 {
			lo = v
		}
		if v.Cmp(hi) > 0 {
			hi = v
		}
	}
	return ratIv{lo, hi}
}

func (it *Interp) atomRange1(a *Term) ratIv {
	switch {
	case a.Op == "var" && a.Rad != nil:
		// real square root side variable: sqrt is monotone; rational enclosure with outward slack
		rb := it.termBounds(a.Rad)
		r := ratIv{lo: new(big.Rat)}
		if rb.lo != nil && rb.lo.Sign() > 0 {
			f, _ := rb.lo.Float64()
			if s := math.Sqrt(f) * (1 - 1e-12); s > 0 && !math.IsInf(s, 0) {
				if q := ratOf(s); q != nil && new(big.Rat).Mul(q, q).Cmp(rb.lo) <= 0 {
					r.lo = q
				}
			}
		}
		if rb.hi != nil && rb.hi.Sign() >= 0 {
			f, _ := rb.hi.Float64()
			if s := math.Sqrt(f)*(1+1e-12) + 1e-300; !math.IsInf(s, 0) {
				if q := ratOf(s); q != nil && new(big.Rat).Mul(q, q).Cmp(rb.hi) >= 0 {
					r.hi = q
				}
			}
		}
		return r
	case a.Op == "*":
		if a.Args[0] == a.Args[1] {
			x := it.termBounds(a.Args[0])
			r := mulIv(x, x)
			if r.lo == nil || r.lo.Sign() < 0 {
				r.lo = new(big.Rat)
			}
			return r
		}
		return mulIv(it.termBounds(a.Args[0]), it.termBounds(a.Args[1]))
	case a.Op == "/":
		x, y := it.termBounds(a.Args[0]), it.termBounds(a.Args[1])
		if y.lo == nil || y.hi == nil || (y.lo.Sign() <= 0 && y.hi.Sign() >= 0) {
			return ratIv{}
		}
		inv := ratIv{lo: new(big.Rat).Inv(y.hi), hi: new(big.Rat).Inv(y.lo)}
		return mulIv(x, inv)
	case a.Op == "ite":
		x, y := it.termBounds(a.Args[1]), it.termBounds(a.Args[2])
		var r ratIv
		if x.lo != nil && y.lo != nil {
			r.lo = x.lo
			if y.lo.Cmp(r.lo) < 0 {
				r.lo = y.lo
			}
		}
		if x.hi != nil && y.hi != nil {
			r.hi = x.hi
			if y.hi.Cmp(r.hi) > 0 {
				r.hi = y.hi
			}
		}
		return r
	}
	return ratIv{}
}

// realDecide answers a comparison between real terms when the box settles it.
func (it *Interp) realDecide(op string, a, b *Term) (bool, bool) {
	if it.mode != Math || it.realRange == nil || it.cfg.NoRealIntervals {
		return false, false
	}
	fa, fb := it.lin(a), it.lin(b)
	if fa == nil || fb == nil {
		return false, false
	}
	dp := fa.add(fb, -1) // a - b
	d := it.formBounds(dp)
	v, ok := realVerdict(op, d)
	if !ok {
		// only the sign of a-b matters: divide out the monomial common to every term when its sign is definite
		// (w*(k - eps*(1+k)) with w > 0 has the sign of the bracket, which the box may settle although the
		// monomial-wise enclosure of the product does not)
		if rest, sign := it.factorCommon(dp); rest != nil {
			d = it.formBounds(rest)
			if sign < 0 {
				d = ratIv{lo: negRat(d.hi), hi: negRat(d.lo)}
			}
			v, ok = realVerdict(op, d)
		}
	}
	if !ok {
		return false, false
	}
	it.rep.PolyDecided++
	if n := it.cfg.PolyConfirmEvery; n > 0 && it.rep.PolyDecided%n == 0 {
		// cross-check a sample of the layer's verdicts against the solver (the path condition implies the box)
		var c *Term
		switch op {
		case "<":
			c = it.tb.Cmp(token.LSS, a, b, true)
		case "<=":
			c = it.tb.Cmp(token.LEQ, a, b, true)
		default:
			c = it.tb.Eq(a, b)
		}
		if !v {
			c = it.tb.Not(c)
		}
		it.rep.PolyConfirmed++
		if !c.IsConst() && it.quietCheck(it.tb.Not(c)) == Sat {
			it.rep.Inconclusive["polynomial bound layer contradicted by the solver (verdict discarded)"]++
			return false, false
		}
	}
	return v, true
}

func realVerdict(op string, d ratIv) (bool, bool) {
	switch op {
	case "<":
		if d.hi != nil && d.hi.Sign() < 0 {
			return true, true
		}
		if d.lo != nil && d.lo.Sign() >= 0 {
			return false, true
		}
	case "<=":
		if d.hi != nil && d.hi.Sign() <= 0 {
			return true, true
		}
		if d.lo != nil && d.lo.Sign() > 0 {
			return false, true
		}
	case "=":
		if (d.hi != nil && d.hi.Sign() < 0) || (d.lo != nil && d.lo.Sign() > 0) {
			return false, true
		}
		if d.lo != nil && d.hi != nil && d.lo.Sign() == 0 && d.hi.Sign() == 0 {
			return true, true
		}
	}
	return false, false
}

// nearDecide: |x-y| <= eps(1+|x|+|y|) settled by the polynomial forms alone (identical polynomials, or both sides
// sign-definite over the box and the two one-sided slack polynomials non-negative over the box).
func (it *Interp) nearDecide(x, y *Term) bool {
	if it.mode != Math || it.realRange == nil || it.cfg.NoRealIntervals {
		return false
	}
	fx, fy := it.lin(x), it.lin(y)
	if fx == nil || fy == nil {
		return false
	}
	d := fx.add(fy, -1)
	if len(d.t) == 0 {
		it.rep.PolyDecided++
		return true
	}
	eps := ratOf(it.cfg.NearEps)
	if eps == nil {
		return false
	}
	abs := func(f *linForm) *linForm {
		b := it.formBounds(f)
		if b.lo != nil && b.lo.Sign() >= 0 {
			return f
		}
		if b.hi != nil && b.hi.Sign() <= 0 {
			return f.scale(big.NewRat(-1, 1))
		}
		return nil
	}
	ax, ay := abs(fx), abs(fy)
	if ax == nil || ay == nil {
		return false
	}
	tol := polyConst(big.NewRat(1, 1)).add(ax, 1).add(ay, 1).scale(eps)
	b1 := it.formBounds(tol.add(d, -1))
	b2 := it.formBounds(tol.add(d, 1))
	if b1.lo != nil && b1.lo.Sign() >= 0 && b2.lo != nil && b2.lo.Sign() >= 0 {
		it.rep.PolyDecided++
		return true
	}
	return false
}

// ---------- NaN poison (spec option nan_poison) ----------

func (it *Interp) newPoison() *Term {
	it.poisonSeq++
	v := it.tb.Var(fmt.Sprintf("$nan%d", it.poisonSeq), RealSort)
	if it.poison == nil {
		it.poison = map[*Term]bool{}
	}
	it.poison[v] = true
	it.rep.PoisonValues++
	return v
}

func (it *Interp) touchesPoison(t *Term) bool {
	if len(it.poison) == 0 {
		return false
	}
	if v, ok := it.poisonMemo[t]; ok {
		return v
	}
	r := false
	if t.Op == "var" {
		r = it.poison[t]
	} else {
		for _, a := range t.Args {
			if it.touchesPoison(a) {
				r = true
				break
			}
		}
	}
	if it.poisonMemo == nil {
		it.poisonMemo = map[*Term]bool{}
	}
	it.poisonMemo[t] = r
	return r
}

func (it *Interp) poisonGuard(c *Term, what string) {
	if it.touchesPoison(c) {
		it.outside("a NaN/Inf produced by a division by zero reaches " + what)
	}
}

func negRat(q *big.Rat) *big.Rat {
	if q == nil {
		return nil
	}
	return new(big.Rat).Neg(q)
}

// factorCommon splits p = m * rest with m the monomial common to all terms; it returns rest and the sign of m when
// m is non-trivial and bounded away from zero on one side over the box.
func (it *Interp) factorCommon(p *linForm) (*linForm, int) {
	if len(p.t) < 2 {
		return nil, 0
	}
	var common map[*Term]int
	for _, t := range p.t {
		if common == nil {
			common = map[*Term]int{}
			for _, f := range t.m {
				common[f.a] = f.p
			}
			continue
		}
		here := map[*Term]int{}
		for _, f := range t.m {
			here[f.a] = f.p
		}
		for a, pw := range common {
			if h := here[a]; h < pw {
				if h == 0 {
					delete(common, a)
				} else {
					common[a] = h
				}
			}
		}
		if len(common) == 0 {
			return nil, 0
		}
	}
	sign := 1
	for a, pw := range common {
		r := it.atomRange(a)
		switch {
		case r.lo != nil && r.lo.Sign() > 0:
		case r.hi != nil && r.hi.Sign() < 0:
			if pw%2 == 1 {
				sign = -sign
			}
		default:
			delete(common, a) // sign not definite: keep this atom inside the rest
		}
	}
	if len(common) == 0 {
		return nil, 0
	}
	rest := &linForm{t: make(map[string]*polyTerm, len(p.t))}
	for _, t := range p.t {
		m := make([]monoFactor, 0, len(t.m))
		for _, f := range t.m {
			if c := common[f.a]; c > 0 {
				if f.p > c {
					m = append(m, monoFactor{f.a, f.p - c})
				}
			} else {
				m = append(m, f)
			}
		}
		key := monoKey(m)
		if cur, ok := rest.t[key]; ok {
			k := new(big.Rat).Add(cur.k, t.k)
			if k.Sign() == 0 {
				delete(rest.t, key)
			} else {
				rest.t[key] = &polyTerm{k: k, m: m}
			}
		} else {
			rest.t[key] = &polyTerm{k: t.k, m: m}
		}
	}
	return rest, sign
}
