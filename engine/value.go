package main

import (
	"fmt"
	"go/types"

	"golang.org/x/tools/go/ssa"
)

type Value interface{}

type Object struct {
	ID    int
	V     Value
	T     types.Type
	Label string
}

type PathElem struct {
	I   int   // concrete child index (when Sym == nil)
	Sym *Term // symbolic element index relative to Off, in [0,N)
	Off int
	N   int
}

type Ptr struct {
	Obj  *Object
	Path []PathElem
	Fn   *Closure // pointer-to-function values are not supported; placeholder
}

func (p Ptr) IsNil() bool { return p.Obj == nil }

func (p Ptr) child(e PathElem) Ptr {
	np := make([]PathElem, len(p.Path)+1)
	copy(np, p.Path)
	np[len(p.Path)] = e
	return Ptr{Obj: p.Obj, Path: np}
}

type SliceV struct {
	Arr Ptr // pointer to the backing array value
	Off int
	Len int
	Cap int
	Nil bool
}

type StructV struct{ F []Value }
type ArrayV struct{ E []Value }

type MapObj struct {
	ID int
	K  []Value
	V  []Value
	T  *types.Map
}
type MapV struct{ M *MapObj }

type Iface struct {
	T types.Type // dynamic type; nil => nil interface
	V Value
}

type Closure struct {
	Fn  *ssa.Function
	Env []Value
	// Native, when non-nil, is an engine-provided function value.
	Native func(it *Interp, args []Value) Value
}

type BuiltinV struct{ B *ssa.Builtin }

type Tuple []Value

// SymStr is a string with (possibly) symbolic bytes and numeric tokens.
type Cell struct {
	B   *Term  // a byte (BV8) when Tok == ""
	Tok string // "dec" or "flt" token carrying value T
	T   *Term
}
type SymStr struct{ C []Cell }

type ChanObj struct {
	ID     int
	Buf    []Value
	Cap    int
	Closed bool
	T      types.Type
}

type MapIter struct {
	M     *MapObj
	Order []int
	Keys  []Value
	Vals  []Value
	Pos   int
	Str   string
	IsStr bool
}

// copyVal deep-copies aggregate (struct/array) values; everything else is immutable or a reference.
func copyVal(v Value) Value {
	switch x := v.(type) {
	case *StructV:
		n := &StructV{F: make([]Value, len(x.F))}
		for i, f := range x.F {
			n.F[i] = copyVal(f)
		}
		return n
	case *ArrayV:
		n := &ArrayV{E: make([]Value, len(x.E))}
		for i, f := range x.E {
			n.E[i] = copyVal(f)
		}
		return n
	case Tuple:
		n := make(Tuple, len(x))
		for i, f := range x {
			n[i] = copyVal(f)
		}
		return n
	}
	return v
}

func childOf(v Value, i int) Value {
	switch x := v.(type) {
	case *StructV:
		return x.F[i]
	case *ArrayV:
		if i < 0 || i >= len(x.E) {
			panic(fmt.Sprintf("internal: array child %d of %d", i, len(x.E)))
		}
		return x.E[i]
	}
	panic(fmt.Sprintf("internal: childOf on %T", v))
}

func setChild(v Value, i int, c Value) {
	switch x := v.(type) {
	case *StructV:
		x.F[i] = c
		return
	case *ArrayV:
		x.E[i] = c
		return
	}
	panic(fmt.Sprintf("internal: setChild on %T", v))
}

func samePath(a, b []PathElem) bool {
	if len(a) != len(b) {
		return false
	}
	for i := range a {
		if a[i].Sym != b[i].Sym || a[i].I != b[i].I || a[i].Off != b[i].Off {
			return false
		}
	}
	return true
}

// identical reports whether two reference-like values are the same reference (used by iteVal).
func identical(a, b Value) bool {
	switch x := a.(type) {
	case Ptr:
		y, ok := b.(Ptr)
		return ok && x.Obj == y.Obj && samePath(x.Path, y.Path)
	case SliceV:
		y, ok := b.(SliceV)
		return ok && x.Arr.Obj == y.Arr.Obj && samePath(x.Arr.Path, y.Arr.Path) && x.Off == y.Off && x.Len == y.Len && x.Cap == y.Cap && x.Nil == y.Nil
	case MapV:
		y, ok := b.(MapV)
		return ok && x.M == y.M
	case string:
		y, ok := b.(string)
		return ok && x == y
	case *Closure:
		y, ok := b.(*Closure)
		return ok && x == y
	case Iface:
		y, ok := b.(Iface)
		if !ok {
			return false
		}
		if x.T == nil || y.T == nil {
			return x.T == nil && y.T == nil
		}
		if !types.Identical(x.T, y.T) {
			return false
		}
		if tx, ok := x.V.(*Term); ok {
			return tx == y.V
		}
		return identical(x.V, y.V)
	case *ChanObj:
		return a == b
	case nil:
		return b == nil
	}
	return false
}
