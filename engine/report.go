package main

import (
	"fmt"
	"go/token"
	"math"
	"sort"
	"strings"
)

type HarnessCfg struct {
	Name             string             `json:"name"`
	Pkg              string             `json:"pkg"`
	Func             string             `json:"func"`
	Mode             string             `json:"mode"`
	BoundsQ          map[string]int     `json:"bounds_quick"`
	BoundsT          map[string]int     `json:"bounds_thorough"`
	Unwind           int                `json:"unwind"`
	UnwindConcrete   int                `json:"unwind_concrete"`
	MaxSteps         int64              `json:"max_steps"`
	MaxAlloc         int                `json:"max_alloc"`
	MaxThreads       int                `json:"max_threads"`
	TimeoutS         map[string]float64 `json:"timeout_s"`
	MapOrder         string             `json:"map_order"`
	Sched            string             `json:"sched"`
	Race             bool               `json:"race"`
	RealLimit        float64            `json:"real_limit"`
	NoRealIntervals  bool               `json:"no_real_intervals"`
	PolyConfirmEvery int                `json:"poly_confirm_every"`
	NaNPoison        bool               `json:"nan_poison"`
	NearEps          float64            `json:"near_eps"`
	Reach            []string           `json:"reach"`
	MaxPaths         int                `json:"max_paths"`
	Panics           string             `json:"panics"` // runtime (default) | any | none
	Tiers            []string           `json:"tiers"`  // default both
	Note             string             `json:"note"`
	Shrink           []string           `json:"shrink"`     // names of shrink overlays this harness relies on (informational)
	ShrinkSet        string             `json:"shrink_set"` // named alternative shrink overlay list of the spec
	MaxWallS         float64            `json:"max_wall_s"` // wall-clock budget of the harness (default 900 s quick / 3600 s thorough); paths left over = inconclusive
	Workers          int                `json:"workers"`
	Preemptions      int                `json:"preemptions"`         // sched=all: bound on preemptive context switches per path (default 2)
	MinMaxIte        bool               `json:"minmax_ite"`          // math mode: encode min/max/abs as ite terms instead of forking (linear harnesses)
	UnwindViolation  bool               `json:"unwind_is_violation"` // termination is part of the property (C14)

	Bounds    map[string]int `json:"-"`
	TimeoutMs int            `json:"-"`
}

type ModelVal struct {
	Kind string `json:"kind"` // int | bool | byte | f64 | f32
	V    string `json:"v"`
}

type Violation struct {
	Harness   string              `json:"harness"`
	Label     string              `json:"label"`
	Msg       string              `json:"msg"`
	Model     map[string]ModelVal `json:"values"`
	Notes     []string            `json:"notes,omitempty"`
	MapRev    bool                `json:"map_order_reversed"`
	Replay    string              `json:"replay_file,omitempty"`
	Confirmed string              `json:"confirmed,omitempty"` // yes | no | known
	Output    string              `json:"-"`
}

type Report struct {
	Cfg             *HarnessCfg
	Paths           int
	Completed       int
	Killed          int
	PanicPaths      int
	Outside         map[string]int
	Unwind          map[string]int
	Inconclusive    map[string]int
	BranchQueries   int
	Transitions     int
	UnknownBranches int
	AssertQ         [3]int
	AssertSyntactic int
	PoisonValues    int // NaN/Inf values produced by a division by zero and carried as poison (nan_poison)
	PolyDecided     int // comparisons settled by the exact polynomial/interval layer (realiv.go)
	PolyConfirmed   int // of those, cross-checked against the solver
	AssertBatched   int
	AssertsSeen     map[string]int
	Violations      []*Violation
	Reached         map[string]bool
	Funcs           map[string]bool
	Samples         []map[string]interface{}
	SolverTime      float64
	SolverErrors    []string
	Wall            float64
	MapRanges       int
	Steps           int64
	Truncated       bool
	TimedOut        bool
	Internal        []string

	expInv  map[*Term]*Term
	vioSeen map[string]int
}

func newReport(cfg *HarnessCfg) *Report {
	return &Report{Cfg: cfg, Outside: map[string]int{}, Unwind: map[string]int{}, Inconclusive: map[string]int{},
		AssertsSeen: map[string]int{}, Reached: map[string]bool{}, Funcs: map[string]bool{},
		expInv: map[*Term]*Term{}, vioSeen: map[string]int{}}
}

func modelVal(t *Term, meta string) ModelVal {
	switch t.S.K {
	case SBool:
		return ModelVal{"bool", fmt.Sprint(t.B)}
	case SBV, SInt:
		if meta == "byte" {
			return ModelVal{"byte", fmt.Sprint(t.U & 0xff)}
		}
		return ModelVal{"int", fmt.Sprint(t.SInt64())}
	case SFP:
		if t.S.W == 32 {
			return ModelVal{"f32", fmt.Sprintf("0x%08x", math.Float32bits(float32(t.F)))}
		}
		return ModelVal{"f64", fmt.Sprintf("0x%016x", math.Float64bits(t.F))}
	case SReal:
		return ModelVal{"f64", fmt.Sprintf("0x%016x", math.Float64bits(t.F))}
	}
	return ModelVal{"?", ""}
}

func (r *Report) addViolation(it *Interp, label, msg string, extra []*Term) {
	key := label
	r.vioSeen[key]++
	if r.vioSeen[key] > 2 {
		return
	}
	lits := append(append([]*Term{}, it.pc...), extra...)
	res, m := it.sv.Check(it.tb, lits, it.inputs)
	v := &Violation{Harness: r.Cfg.Name, Label: label, Msg: msg, Model: map[string]ModelVal{}, MapRev: it.mapOrderRev, Notes: append([]string{}, it.pathNotes...)}
	if res == Sat {
		for _, in := range it.inputs {
			if c, ok := m[in.Name]; ok && c != nil {
				v.Model[in.Name] = modelVal(c, it.inputMeta[in.Name])
			}
		}
	} else if res == Unsat {
		// not actually reachable
		r.vioSeen[key]--
		return
	} else {
		r.Inconclusive["model extraction for "+label]++
	}
	it.fillFixed(v)
	r.Violations = append(r.Violations, v)
}

type pendingAssert struct {
	n     int // length of the path condition when the assertion was reached
	cond  *Term
	label string
}

func (it *Interp) recordViolation(label, msg string, m Model) {
	r := it.rep
	r.vioSeen[label]++
	if r.vioSeen[label] > 2 {
		return
	}
	v := &Violation{Harness: r.Cfg.Name, Label: label, Msg: msg, Model: map[string]ModelVal{}, MapRev: it.mapOrderRev, Notes: append([]string{}, it.pathNotes...)}
	for _, in := range it.inputs {
		if cv, ok := m[in.Name]; ok && cv != nil {
			v.Model[in.Name] = modelVal(cv, it.inputMeta[in.Name])
		}
	}
	it.fillFixed(v)
	r.Violations = append(r.Violations, v)
}

func (it *Interp) fillFixed(v *Violation) {
	for name, val := range it.fixed {
		v.Model[name] = modelVal(val, "int")
	}
}

// assert records a harness assertion. Assertions that are not decided syntactically (term identity, known
// literals, intervals) are collected and discharged together at the end of the path by one query
// OR_i (pc_i AND NOT c_i); the path continues under the assumption that the assertion holds.
func (it *Interp) assert(c *Term, label string) {
	it.poisonGuard(c, "an assertion")
	r := it.rep
	r.AssertsSeen[label]++
	if v, ok := it.lookupKnown(c); ok && v {
		r.AssertSyntactic++
		return
	}
	if v, ok := it.intervalDecide(c); ok && v {
		r.AssertSyntactic++
		return
	}
	if v, have := it.evalModel(c); have && !v {
		// the cached model satisfies the path condition and falsifies the assertion
		r.AssertQ[Sat]++
		it.recordViolation(label, "assertion can fail", it.model)
	} else {
		it.pending = append(it.pending, pendingAssert{n: len(it.pc), cond: c, label: label})
	}
	if c.IsConst() && !c.B {
		panic(pathEnd{"killed", "assertion failed concretely"})
	}
	it.addPC(c)
}

// flushAsserts discharges the pending assertions of the path.
func (it *Interp) flushAsserts() {
	if len(it.pending) == 0 {
		return
	}
	tb := it.tb
	r := it.rep
	pend := it.pending
	it.pending = nil
	// prefix conjunctions are shared: P_k = and(P_{k-1}, pc[k-1])
	var disj *Term = tb.False
	prefix := tb.True
	k := 0
	cases := make([]*Term, len(pend))
	for i, p := range pend {
		for k < p.n {
			prefix = tb.And(prefix, it.pc[k])
			k++
		}
		cases[i] = tb.And(prefix, tb.Not(p.cond))
		disj = tb.Or(disj, cases[i])
	}
	if disj.IsConst() && !disj.B {
		r.AssertSyntactic += len(pend)
		return
	}
	vars := it.allVars([]*Term{disj})
	res, m := it.sv.Check(tb, []*Term{disj}, vars)
	r.AssertQ[res]++
	r.AssertBatched += len(pend)
	switch res {
	case Unsat:
	case Sat:
		memo := map[*Term]*Term{}
		found := false
		for i, p := range pend {
			if v := tb.Eval(cases[i], m, memo); v != nil && v.IsConst() && v.B {
				it.recordViolation(p.label, "assertion can fail", m)
				found = true
				break
			}
		}
		if !found {
			// model incomplete for evaluation: isolate with individual queries
			it.flushIndividually(pend, cases)
		}
	case Unknown:
		it.flushIndividually(pend, cases)
	}
}

func (it *Interp) flushIndividually(pend []pendingAssert, cases []*Term) {
	r := it.rep
	for i, p := range pend {
		res, m := it.sv.Check(it.tb, []*Term{cases[i]}, it.allVars([]*Term{cases[i]}))
		r.AssertQ[res]++
		switch res {
		case Sat:
			it.recordViolation(p.label, "assertion can fail", m)
			return
		case Unknown:
			r.Inconclusive["assert "+p.label+": solver unknown"]++
		}
	}
}

// assertNearSplit decides |x-y| <= eps(1+|x|+|y|) over the reals by case-splitting the absolute values
// into pure polynomial queries (ite-laden NRA queries are 10-100x slower).
func (it *Interp) assertNearSplit(x, y *Term, label string) {
	tb := it.tb
	r := it.rep
	r.AssertsSeen[label]++
	eps := tb.RealC(it.cfg.NearEps)
	zero := tb.RealC(0)
	d := tb.Arith(token.SUB, x, y, true)
	anyUnknown := false
	// stage 1: any model of x != y whose concrete gap is macroscopic is already a counterexample
	{
		lits := append(append([]*Term{}, it.pc...), tb.Not(tb.Eq(x, y)))
		for attempt := 0; attempt < 3; attempt++ {
			res, m := it.sv.Check(tb, lits, it.allVars(lits))
			if res != Sat {
				break
			}
			memo := map[*Term]*Term{}
			vx, vy := tb.Eval(x, m, memo), tb.Eval(y, m, memo)
			if vx == nil || vy == nil {
				break
			}
			gap := math.Abs(vx.F - vy.F)
			if gap > 10*it.cfg.NearEps*(1+math.Abs(vx.F)+math.Abs(vy.F)) {
				r.AssertQ[Sat]++
				r.vioSeen[label]++
				if r.vioSeen[label] <= 2 {
					v := &Violation{Harness: r.Cfg.Name, Label: label, Msg: "values can differ beyond tolerance", Model: map[string]ModelVal{}, MapRev: it.mapOrderRev, Notes: append([]string{}, it.pathNotes...)}
					for _, in := range it.inputs {
						if cv, ok := m[in.Name]; ok && cv != nil {
							v.Model[in.Name] = modelVal(cv, it.inputMeta[in.Name])
						}
					}
					it.fillFixed(v)
					r.Violations = append(r.Violations, v)
				}
				return
			}
			// ask for a model with a visible difference: scale the demand up
			k := tb.RealC(1e-3)
			if attempt == 1 {
				k = tb.RealC(1)
			}
			lits = append(append([]*Term{}, it.pc...), tb.Cmp(token.GTR, tb.Arith(token.MUL, d, d, true), tb.Arith(token.MUL, k, k, true), true))
		}
	}
	for _, sx := range []int{1, -1} {
		for _, sy := range []int{1, -1} {
			ax, ay := x, y
			cx := tb.Cmp(token.GEQ, x, zero, true)
			cy := tb.Cmp(token.GEQ, y, zero, true)
			if sx < 0 {
				ax = tb.Neg(x)
				cx = tb.Cmp(token.LSS, x, zero, true)
			}
			if sy < 0 {
				ay = tb.Neg(y)
				cy = tb.Cmp(token.LSS, y, zero, true)
			}
			tol := tb.Arith(token.MUL, eps, tb.Arith(token.ADD, tb.RealC(1), tb.Arith(token.ADD, ax, ay, true), true), true)
			for _, sd := range []int{1, -1} {
				dd := d
				if sd < 0 {
					dd = tb.Neg(d)
				}
				gap := tb.Cmp(token.GTR, dd, tol, true)
				q := tb.AndN(cx, cy, gap)
				if q.IsConst() && !q.B {
					continue
				}
				lits := append(append([]*Term{}, it.pc...), q)
				res, m := it.sv.Check(tb, lits, it.inputs)
				r.AssertQ[res]++
				switch res {
				case Sat:
					r.vioSeen[label]++
					if r.vioSeen[label] <= 2 {
						v := &Violation{Harness: r.Cfg.Name, Label: label, Msg: "values can differ beyond tolerance", Model: map[string]ModelVal{}, MapRev: it.mapOrderRev, Notes: append([]string{}, it.pathNotes...)}
						for _, in := range it.inputs {
							if cv, ok := m[in.Name]; ok && cv != nil {
								v.Model[in.Name] = modelVal(cv, it.inputMeta[in.Name])
							}
						}
						it.fillFixed(v)
						r.Violations = append(r.Violations, v)
					}
					return
				case Unknown:
					anyUnknown = true
				}
			}
		}
	}
	if anyUnknown {
		r.Inconclusive["assert "+label+": solver unknown"]++
	}
}

// allVars lists every variable occurring in the given terms (inputs and side variables).
func (it *Interp) allVars(ts []*Term) []*Term {
	seen := map[*Term]bool{}
	var out []*Term
	var walk func(t *Term)
	walk = func(t *Term) {
		if seen[t] {
			return
		}
		seen[t] = true
		if t.Op == "var" {
			out = append(out, t)
			if t.Side != nil {
				walk(t.Side)
			}
			return
		}
		for _, a := range t.Args {
			walk(a)
		}
	}
	for _, t := range ts {
		walk(t)
	}
	return out
}

// quietCheck asks pc ∧ extra with a short timeout; used for optional strengthening attempts.
func (it *Interp) quietCheck(extra *Term) Result {
	lits := append(append([]*Term{}, it.pc...), extra)
	r, _ := it.sv.Check(it.tb, lits, nil)
	return r
}

func sortedKeys(m map[string]int) []string {
	ks := make([]string, 0, len(m))
	for k := range m {
		ks = append(ks, k)
	}
	sort.Strings(ks)
	return ks
}

func (r *Report) summary() string {
	var sb strings.Builder
	fmt.Fprintf(&sb, "harness %s: paths=%d completed=%d killed=%d panic-paths=%d branchq=%d assertq(unsat/sat/unk)=%d/%d/%d solver=%.1fs wall=%.1fs",
		r.Cfg.Name, r.Paths, r.Completed, r.Killed, r.PanicPaths, r.BranchQueries, r.AssertQ[0], r.AssertQ[1], r.AssertQ[2], r.SolverTime, r.Wall)
	for _, k := range sortedKeys(r.Outside) {
		fmt.Fprintf(&sb, "\n  outside-model x%d: %s", r.Outside[k], k)
	}
	for _, k := range sortedKeys(r.Unwind) {
		fmt.Fprintf(&sb, "\n  unwind x%d: %s", r.Unwind[k], k)
	}
	for _, k := range sortedKeys(r.Inconclusive) {
		fmt.Fprintf(&sb, "\n  inconclusive x%d: %s", r.Inconclusive[k], k)
	}
	for _, e := range r.Internal {
		fmt.Fprintf(&sb, "\n  internal: %s", e)
	}
	for _, e := range r.SolverErrors {
		fmt.Fprintf(&sb, "\n  solver-error: %s", e)
	}
	return sb.String()
}
