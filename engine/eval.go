package main

import (
	"fmt"
	"go/token"
)

// Eval evaluates t under a model (variable name -> constant) by rebuilding it through the folding
// constructors. Returns nil if some variable has no value or an operation does not fold.
func (tb *TB) Eval(t *Term, m Model, memo map[*Term]*Term) *Term {
	if t.IsConst() {
		return t
	}
	if r, ok := memo[t]; ok {
		return r
	}
	var r *Term
	if t.Op == "var" {
		r = m[t.Name]
		if r != nil && r.S != t.S {
			r = nil
		}
		memo[t] = r
		return r
	}
	args := make([]*Term, len(t.Args))
	// short-circuit ite / and / or to tolerate unevaluable dead branches
	if t.Op == "ite" {
		c := tb.Eval(t.Args[0], m, memo)
		if c == nil || !c.IsConst() {
			memo[t] = nil
			return nil
		}
		if c.B {
			r = tb.Eval(t.Args[1], m, memo)
		} else {
			r = tb.Eval(t.Args[2], m, memo)
		}
		memo[t] = r
		return r
	}
	for i, a := range t.Args {
		args[i] = tb.Eval(a, m, memo)
		if args[i] == nil {
			if (t.Op == "and" || t.Op == "or") && i == 1 {
				// first arg may already decide
				if args[0] != nil && args[0].IsConst() && ((t.Op == "and" && !args[0].B) || (t.Op == "or" && args[0].B)) {
					memo[t] = args[0]
					return args[0]
				}
			}
			memo[t] = nil
			return nil
		}
	}
	r = tb.rebuild(t, args)
	if r != nil && !r.IsConst() {
		r = nil
	}
	memo[t] = r
	return r
}

func (tb *TB) rebuild(t *Term, a []*Term) (res *Term) {
	defer func() {
		if recover() != nil {
			res = nil
		}
	}()
	switch t.Op {
	case "not":
		return tb.Not(a[0])
	case "and":
		return tb.And(a[0], a[1])
	case "or":
		return tb.Or(a[0], a[1])
	case "=":
		return tb.Same(a[0], a[1])
	case "fp.eq":
		return tb.Eq(a[0], a[1])
	case "bvadd", "+":
		return tb.Arith(token.ADD, a[0], a[1], true)
	case "bvsub":
		return tb.Arith(token.SUB, a[0], a[1], true)
	case "-":
		if len(a) == 1 {
			return tb.Neg(a[0])
		}
		return tb.Arith(token.SUB, a[0], a[1], true)
	case "bvmul", "*":
		return tb.Arith(token.MUL, a[0], a[1], true)
	case "/":
		return tb.Arith(token.QUO, a[0], a[1], true)
	case "bvsdiv", "godiv":
		return tb.Arith(token.QUO, a[0], a[1], true)
	case "bvudiv":
		return tb.Arith(token.QUO, a[0], a[1], false)
	case "bvsrem", "gorem":
		return tb.Arith(token.REM, a[0], a[1], true)
	case "bvurem":
		return tb.Arith(token.REM, a[0], a[1], false)
	case "div":
		x, y := int64(a[0].U), int64(a[1].U)
		if y == 0 {
			return nil
		}
		q := x / y
		if (x%y != 0) && ((x < 0) != (y < 0)) {
			q--
		}
		return tb.IntC(q)
	case "bvand":
		return tb.Arith(token.AND, a[0], a[1], false)
	case "bvor":
		return tb.Arith(token.OR, a[0], a[1], false)
	case "bvxor":
		return tb.Arith(token.XOR, a[0], a[1], false)
	case "bvnot":
		return tb.BitNot(a[0])
	case "bvneg", "fp.neg":
		return tb.Neg(a[0])
	case "bvshl":
		return tb.Arith(token.SHL, a[0], a[1], false)
	case "bvlshr":
		return tb.Arith(token.SHR, a[0], a[1], false)
	case "bvashr":
		return tb.Arith(token.SHR, a[0], a[1], true)
	case "bvslt":
		return tb.Cmp(token.LSS, a[0], a[1], true)
	case "bvsle":
		return tb.Cmp(token.LEQ, a[0], a[1], true)
	case "bvult":
		return tb.Cmp(token.LSS, a[0], a[1], false)
	case "bvule":
		return tb.Cmp(token.LEQ, a[0], a[1], false)
	case "fp.lt", "<":
		return tb.Cmp(token.LSS, a[0], a[1], true)
	case "fp.leq", "<=":
		return tb.Cmp(token.LEQ, a[0], a[1], true)
	case "extract":
		var hi, lo int
		fmt.Sscanf(t.Name, "%d %d", &hi, &lo)
		return tb.Extract(a[0], hi, lo)
	case "zero_extend":
		return tb.ZExt(a[0], t.S.W)
	case "sign_extend":
		return tb.SExt(a[0], t.S.W)
	case "concat":
		return tb.Concat(a[0], a[1])
	case "fp.add":
		return tb.Arith(token.ADD, a[0], a[1], true)
	case "fp.sub":
		return tb.Arith(token.SUB, a[0], a[1], true)
	case "fp.mul":
		return tb.Arith(token.MUL, a[0], a[1], true)
	case "fp.div":
		return tb.Arith(token.QUO, a[0], a[1], true)
	case "fp.abs":
		return tb.FUn("abs", a[0])
	case "fp.sqrt":
		return tb.FUn("sqrt", a[0])
	case "fp.isNaN":
		return tb.FUn("isnan", a[0])
	case "fp.isInfinite":
		return tb.FUn("isinf", a[0])
	case "fp.roundToIntegral":
		switch t.Name {
		case "RTN":
			return tb.FUn("floor", a[0])
		case "RTP":
			return tb.FUn("ceil", a[0])
		case "RTZ":
			return tb.FUn("trunc", a[0])
		case "RNA":
			return tb.FUn("roundaway", a[0])
		}
	case "to_fp64":
		return tb.FloatToFloat(a[0], 64)
	case "to_fp32":
		return tb.FloatToFloat(a[0], 32)
	case "sbv_to_fp":
		return tb.IntToFloat(a[0], true, t.S.W, false)
	case "ubv_to_fp":
		return tb.IntToFloat(a[0], false, t.S.W, false)
	case "fp_to_sbv":
		return tb.FloatToInt(a[0], true, 64)
	case "fp_to_ubv":
		return tb.FloatToInt(a[0], false, 64)
	case "half_to_fp64":
		return tb.HalfToFloat64(a[0])
	case "bits_to_fp":
		return tb.FloatFromBits(a[0])
	case "fp.to_ieee_bv":
		return tb.FloatBits(a[0])
	case "to_real":
		return tb.IntToFloat(a[0], true, 64, true)
	case "to_int":
		return tb.IntC(int64(floorF(a[0].F)))
	}
	return nil
}

func floorF(f float64) float64 {
	i := float64(int64(f))
	if i > f {
		i--
	}
	return i
}
