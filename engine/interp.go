package main

import (
	"fmt"
	"go/constant"
	"go/token"
	"go/types"
	"os"
	"strings"
	"sync"

	"golang.org/x/tools/go/ssa"
)

type Mode int

const (
	Bits Mode = iota
	Math
)

// pathEnd is thrown (as a Go panic) to terminate the current path.
type pathEnd struct {
	kind string // killed | outside | unwind | inconclusive
	msg  string
}

// goPanic is an interpreted Go panic travelling up the interpreted stack.
type goPanic struct {
	val     Value
	runtime bool
	msg     string
	stack   string
}

type fnInfo struct {
	idx map[ssa.Value]int
	n   int
}

type deferred struct {
	fn   Value
	args []Value
	call *ssa.CallCommon
}

type Frame struct {
	fn         *ssa.Function
	info       *fnInfo
	env        []Value
	block      *ssa.BasicBlock
	prev       *ssa.BasicBlock
	defers     []deferred
	panicking  *goPanic
	visits     map[*ssa.BasicBlock]int
	visitDec   map[*ssa.BasicBlock]int
	concVisits map[*ssa.BasicBlock]int
	result     Value
	caller     *Frame
	thread     *Thread
}

type Interp struct {
	prog     *ssa.Program
	tb       *TB
	sv       *Solver
	mode     Mode
	sizes    types.Sizes
	fnInfos  map[*ssa.Function]*fnInfo
	cfg      *HarnessCfg
	intrTab  map[string]intrinsic
	initOK   func(pkg *ssa.Package) bool
	funcHits map[string]bool

	// per path
	pc          []*Term
	known       map[*Term]bool
	prefix      []int
	decisions   []int
	globals     map[*ssa.Global]*Object
	initDone    map[*ssa.Package]bool
	objSeq      int
	depth       int
	steps       int64
	inputs      []*Term
	inputMeta   map[string]string
	recoverable **goPanic
	fixed       map[string]*Term  // inputs fixed by enumeration (Choose): name -> value
	wrapped     map[*Object]Value // error wrapping side table
	gzipUnder   map[*Object]Value
	jsonSeq     int
	jsonMsgs    map[*Object]Iface
	threads     []*Thread
	cur         *Thread
	sched       *Sched
	mapOrderRev bool
	reached     map[string]bool
	observes    []string
	pathNotes   []string

	fstat      *forkStat
	lazyAlt    bool
	pending    []pendingAssert
	normalEnd  bool
	pcVars     map[*Term]bool
	pcSeen     map[*Term]bool
	constCache map[*ssa.Const]Value
	stack      []*ssa.Function
	model      Model
	modelMemo  map[*Term]*Term
	modelNeeds *Term
	varRange   map[*Term][2]int64
	ivMemo     map[*Term][3]int64
	realRange  map[*Term]ratIv
	poison     map[*Term]bool
	poisonMemo map[*Term]bool
	poisonSeq  int
	linMemo    map[*Term]*linForm
	atomMemo   map[*Term]*ratIv

	// global
	work   [][]int
	shared *sharedWork
	rep    *Report
}

func (it *Interp) info(fn *ssa.Function) *fnInfo {
	if fi, ok := it.fnInfos[fn]; ok {
		return fi
	}
	fi := &fnInfo{idx: map[ssa.Value]int{}}
	for _, p := range fn.Params {
		fi.idx[p] = fi.n
		fi.n++
	}
	for _, p := range fn.FreeVars {
		fi.idx[p] = fi.n
		fi.n++
	}
	for _, b := range fn.Blocks {
		for _, in := range b.Instrs {
			if v, ok := in.(ssa.Value); ok {
				fi.idx[v] = fi.n
				fi.n++
			}
		}
	}
	it.fnInfos[fn] = fi
	return fi
}

func (it *Interp) outside(format string, a ...interface{}) {
	panic(pathEnd{"outside", fmt.Sprintf(format, a...)})
}

func (it *Interp) newObject(v Value, t types.Type) *Object {
	it.objSeq++
	return &Object{ID: it.objSeq, V: v, T: t}
}

// ---------- types and zero values ----------

func (it *Interp) intSort(w int) Sort {
	if it.mode == Math {
		return IntSort
	}
	return BVSort(w)
}

func (it *Interp) basicSort(b *types.Basic) (Sort, bool) {
	switch b.Kind() {
	case types.Bool, types.UntypedBool:
		return BoolSort, true
	case types.Int, types.Int64, types.Uint, types.Uint64, types.Uintptr, types.UntypedInt:
		return it.intSort(64), true
	case types.Int32, types.Uint32, types.UntypedRune:
		return it.intSort(32), true
	case types.Int16, types.Uint16:
		return it.intSort(16), true
	case types.Int8, types.Uint8:
		return it.intSort(8), true
	case types.Float64, types.UntypedFloat:
		if it.mode == Math {
			return RealSort, true
		}
		return F64Sort, true
	case types.Float32:
		if it.mode == Math {
			return RealSort, true
		}
		return F32Sort, true
	}
	return Sort{}, false
}

func isSigned(t types.Type) bool {
	b, ok := t.Underlying().(*types.Basic)
	if !ok {
		return false
	}
	return b.Info()&types.IsUnsigned == 0
}

func isFloat(t types.Type) bool {
	b, ok := t.Underlying().(*types.Basic)
	return ok && b.Info()&types.IsFloat != 0
}
func isInteger(t types.Type) bool {
	b, ok := t.Underlying().(*types.Basic)
	return ok && b.Info()&types.IsInteger != 0
}
func isString(t types.Type) bool {
	b, ok := t.Underlying().(*types.Basic)
	return ok && b.Info()&types.IsString != 0
}

func intWidth(t types.Type) int {
	b := t.Underlying().(*types.Basic)
	switch b.Kind() {
	case types.Int8, types.Uint8:
		return 8
	case types.Int16, types.Uint16:
		return 16
	case types.Int32, types.Uint32, types.UntypedRune:
		return 32
	}
	return 64
}

func (it *Interp) zero(t types.Type) Value {
	switch u := t.Underlying().(type) {
	case *types.Basic:
		if u.Info()&types.IsString != 0 {
			return ""
		}
		if u.Kind() == types.UnsafePointer {
			return Ptr{}
		}
		if u.Kind() == types.UntypedNil {
			return nil
		}
		s, ok := it.basicSort(u)
		if !ok {
			it.outside("unsupported basic type %s", u)
		}
		return it.tb.Zero(s)
	case *types.Pointer:
		return Ptr{}
	case *types.Slice:
		return SliceV{Nil: true}
	case *types.Struct:
		sv := &StructV{F: make([]Value, u.NumFields())}
		for i := range sv.F {
			sv.F[i] = it.zero(u.Field(i).Type())
		}
		return sv
	case *types.Array:
		av := &ArrayV{E: make([]Value, u.Len())}
		for i := range av.E {
			av.E[i] = it.zero(u.Elem())
		}
		return av
	case *types.Map:
		return MapV{}
	case *types.Interface:
		return Iface{}
	case *types.Signature:
		return (*Closure)(nil)
	case *types.Chan:
		return (*ChanObj)(nil)
	case *types.Tuple:
		tp := make(Tuple, u.Len())
		for i := range tp {
			tp[i] = it.zero(u.At(i).Type())
		}
		return tp
	}
	it.outside("zero: unsupported type %s", t)
	return nil
}

func (it *Interp) intC(v int64, t types.Type) *Term {
	if it.mode == Math {
		return it.tb.IntC(v)
	}
	return it.tb.BVC(intWidth(t), uint64(v))
}

// mkInt makes an `int` constant.
func (it *Interp) mkInt(v int) *Term {
	if it.mode == Math {
		return it.tb.IntC(int64(v))
	}
	return it.tb.BVC(64, uint64(v))
}

func (it *Interp) floatC(f float64, t types.Type) *Term {
	if it.mode == Math {
		return it.tb.RealC(f)
	}
	if t.Underlying().(*types.Basic).Kind() == types.Float32 {
		return it.tb.FPC(32, f)
	}
	return it.tb.FPC(64, f)
}

func (it *Interp) constValue(c *ssa.Const) Value {
	if v, ok := it.constCache[c]; ok {
		return v
	}
	v := it.constValue1(c)
	switch v.(type) {
	case *Term, string:
		if it.constCache == nil {
			it.constCache = map[*ssa.Const]Value{}
		}
		it.constCache[c] = v
	}
	return v
}

func (it *Interp) constValue1(c *ssa.Const) Value {
	if c.Value == nil {
		return it.zero(c.Type())
	}
	t := c.Type()
	if tp, ok := t.(*types.TypeParam); ok {
		it.outside("const of type parameter %s", tp)
	}
	b, ok := t.Underlying().(*types.Basic)
	if !ok {
		it.outside("const of non-basic type %s", t)
	}
	switch {
	case b.Info()&types.IsBoolean != 0:
		return it.tb.BoolC(constant.BoolVal(c.Value))
	case b.Info()&types.IsString != 0:
		return constant.StringVal(c.Value)
	case b.Info()&types.IsInteger != 0:
		if b.Info()&types.IsUnsigned != 0 {
			u, _ := constant.Uint64Val(constant.ToInt(c.Value))
			return it.intC(int64(u), t)
		}
		i, _ := constant.Int64Val(constant.ToInt(c.Value))
		return it.intC(i, t)
	case b.Info()&types.IsFloat != 0:
		f, _ := constant.Float64Val(c.Value)
		return it.floatC(f, t)
	}
	it.outside("unsupported constant %s", c)
	return nil
}

// ---------- path condition / decisions ----------

func (it *Interp) addPC(c *Term) {
	if c.IsConst() {
		return
	}
	it.pc = append(it.pc, c)
	it.notePCVars(c)
	it.noteRealBound(c)
	if it.model != nil {
		if v := it.tb.Eval(c, it.model, it.modelMemo); v == nil || !v.IsConst() || !v.B {
			if !it.repairModel(c) {
				if os.Getenv("GOSYM_DEBUG") != "" {
					dbg("model dropped at literal %s %s (eval=%v)", c.Op, c.body(), v)
				}
				it.model = nil
			}
		}
	}
	it.known[c] = true
	if c.Op == "not" {
		it.known[c.Args[0]] = false
	} else {
		it.known[it.tb.Not(c)] = false
	}
	if c.Op == "and" {
		for _, a := range c.Args {
			if _, ok := it.known[a]; !ok {
				it.known[a] = true
			}
		}
	}
}

// repairModel tries to adapt the cached model to a new literal of the form b, (not b), (= x k) over an input
// variable, and re-validates the whole path condition under the adapted model.
func (it *Interp) repairModel(c *Term) bool {
	var v, val *Term
	switch {
	case c.Op == "var" && c.S.K == SBool:
		v, val = c, it.tb.True
	case c.Op == "not" && c.Args[0].Op == "var":
		v, val = c.Args[0], it.tb.False
	case c.Op == "=" && c.Args[0].Op == "var" && c.Args[1].IsConst():
		v, val = c.Args[0], c.Args[1]
	case c.Op == "=" && c.Args[1].Op == "var" && c.Args[0].IsConst():
		v, val = c.Args[1], c.Args[0]
	default:
		return false
	}
	old := it.model[v.Name]
	it.model[v.Name] = val
	memo := map[*Term]*Term{}
	for _, l := range it.pc {
		if r := it.tb.Eval(l, it.model, memo); r == nil || !r.IsConst() || !r.B {
			if old != nil {
				it.model[v.Name] = old
			} else {
				delete(it.model, v.Name)
			}
			return false
		}
	}
	it.modelMemo = memo
	return true
}

// notePCVars records which variables occur in the path condition.
func (it *Interp) notePCVars(t *Term) {
	if it.pcSeen[t] {
		return
	}
	it.pcSeen[t] = true
	if t.Op == "var" {
		it.pcVars[t] = true
		if t.Side != nil {
			it.notePCVars(t.Side)
		}
		return
	}
	for _, a := range t.Args {
		it.notePCVars(a)
	}
}

func (it *Interp) check(extra ...*Term) Result {
	lits := append(append([]*Term{}, it.pc...), extra...)
	r, _ := it.sv.Check(it.tb, lits, nil)
	it.rep.BranchQueries++
	return r
}

// nextDecision returns the forced decision from the prefix, or -1 when past it.
func (it *Interp) nextDecision() int {
	n := len(it.decisions)
	if n < len(it.prefix) {
		return it.prefix[n]
	}
	return -1
}

// simplifyKnown folds sub-conditions already decided on this path.
func (it *Interp) lookupKnown(c *Term) (bool, bool) {
	if c.IsConst() {
		return c.B, true
	}
	if v, ok := it.known[c]; ok {
		return v, true
	}
	switch c.Op {
	case "not":
		if v, ok := it.lookupKnown(c.Args[0]); ok {
			return !v, true
		}
	case "and":
		a, aok := it.lookupKnown(c.Args[0])
		b, bok := it.lookupKnown(c.Args[1])
		if (aok && !a) || (bok && !b) {
			return false, true
		}
		if aok && bok {
			return a && b, true
		}
	case "or":
		a, aok := it.lookupKnown(c.Args[0])
		b, bok := it.lookupKnown(c.Args[1])
		if (aok && a) || (bok && b) {
			return true, true
		}
		if aok && bok {
			return a || b, true
		}
	case "ite":
		if c.S.K == SBool {
			if g, ok := it.lookupKnown(c.Args[0]); ok {
				if g {
					return it.lookupKnown(c.Args[1])
				}
				return it.lookupKnown(c.Args[2])
			}
			a, aok := it.lookupKnown(c.Args[1])
			b, bok := it.lookupKnown(c.Args[2])
			if aok && bok && a == b {
				return a, true
			}
		}
	}
	return false, false
}

// decide resolves a symbolic condition to a concrete boolean, forking the path when the other side may be
// feasible. Forking is lazy: the alternative is pushed without a feasibility query and verified when it runs
// (its first solver interaction, or the final feasibility check), so a fork costs no query when the cached model
// already witnesses one side.
func (it *Interp) decide(c *Term) bool {
	it.poisonGuard(c, "a branch condition")
	if v, ok := it.lookupKnown(c); ok {
		return v
	}
	if v, ok := it.intervalDecide(c); ok {
		return v
	}
	var choice bool
	if d := it.nextDecision(); d >= 0 {
		choice = d == 1
	} else if side, have := it.evalModelVerified(c); have {
		choice = side
		st := it.forkStats()
		if st.eager() {
			// this harness mostly produces infeasible alternatives: prune them at the fork (one query)
			var other *Term
			if side {
				other = it.tb.Not(c)
			} else {
				other = c
			}
			if r := it.check(other); r != Unsat {
				if r == Unknown {
					it.rep.UnknownBranches++
				}
				it.pushWork(append(append([]int{}, it.decisions...), b2i(!side), markEager))
			}
		} else {
			it.pushWork(append(append([]int{}, it.decisions...), b2i(!side), markLazy))
		}
	} else {
		rT := it.checkModel(c)
		switch rT {
		case Sat:
			alt := append(append([]int{}, it.decisions...), 0)
			it.pushWork(alt)
			choice = true
		case Unsat:
			rF := it.checkModel(it.tb.Not(c))
			if rF == Unsat {
				panic(pathEnd{"killed", "infeasible path"})
			}
			if rF == Unknown {
				it.rep.UnknownBranches++
			}
			choice = false
		default:
			it.rep.UnknownBranches++
			alt := append(append([]int{}, it.decisions...), 0)
			it.pushWork(alt)
			choice = true
		}
	}
	if choice {
		it.decisions = append(it.decisions, 1)
		it.addPC(c)
	} else {
		it.decisions = append(it.decisions, 0)
		it.addPC(it.tb.Not(c))
	}
	it.rep.Transitions++
	return choice
}

// forkStat adapts between lazy and eager forking per harness.
type forkStat struct {
	mu         sync.Mutex
	lazyRun    int
	lazyKilled int
}

func (f *forkStat) eager() bool {
	f.mu.Lock()
	defer f.mu.Unlock()
	return f.lazyRun >= 16 && f.lazyKilled*3 > f.lazyRun
}

func (it *Interp) forkStats() *forkStat { return it.fstat }

func stripNot(c *Term) *Term {
	for c.Op == "not" {
		c = c.Args[0]
	}
	return c
}

func b2i(b bool) int {
	if b {
		return 1
	}
	return 0
}

func (it *Interp) pushWork(p []int) {
	if it.shared != nil {
		it.shared.push(p)
		return
	}
	it.work = append(it.work, p)
}

// evalModelVerified is evalModel, but a path that has no model yet (an unverified lazily forked alternative)
// first verifies its path condition - an infeasible alternative dies here with a single query.
func (it *Interp) evalModelVerified(c *Term) (bool, bool) {
	if it.model == nil && len(it.pc) > 0 {
		r := it.checkModel(it.tb.True)
		if it.lazyAlt {
			it.lazyAlt = false
			it.fstat.mu.Lock()
			it.fstat.lazyRun++
			if r == Unsat {
				it.fstat.lazyKilled++
			}
			it.fstat.mu.Unlock()
		}
		if r == Unsat {
			panic(pathEnd{"killed", "infeasible path"})
		}
	}
	return it.evalModel(c)
}

// evalModel evaluates c under the cached model of the current path condition (if still valid).
func (it *Interp) evalModel(c *Term) (bool, bool) {
	if it.model == nil {
		return false, false
	}
	v := it.tb.Eval(c, it.model, it.modelMemo)
	if v == nil || !v.IsConst() {
		return false, false
	}
	return v.B, true
}

// checkModel is check(extra) that also caches the model on sat.
func (it *Interp) checkModel(extra *Term) Result {
	lits := append(append([]*Term{}, it.pc...), extra)
	vars := it.allVars(lits)
	r, m := it.sv.Check(it.tb, lits, vars)
	it.rep.BranchQueries++
	if r == Sat && m != nil {
		complete := true
		for _, v := range vars {
			if m[v.Name] == nil {
				complete = false
			}
		}
		if complete {
			it.model = m
			it.modelMemo = map[*Term]*Term{}
			it.modelNeeds = extra
		}
	}
	return r
}

// choose makes an n-way nondeterministic choice (scheduler, map order); all alternatives are explored.
func (it *Interp) choose(n int) int {
	if n <= 1 {
		return 0
	}
	if d := it.nextDecision(); d >= 0 {
		it.decisions = append(it.decisions, d)
		return d
	}
	for k := 1; k < n; k++ {
		alt := append(append([]int{}, it.decisions...), k)
		it.pushWork(alt)
	}
	it.decisions = append(it.decisions, 0)
	it.rep.Transitions++
	return 0
}

// concretize turns a symbolic integer into a concrete one by forking over its feasible values. The chosen
// (or excluded) values are recorded in the decision log itself, so a prefix fully describes its path.
func (it *Interp) concretize(t *Term) int64 {
	if t.IsConst() {
		return t.SInt64()
	}
	if lo, hi, ok := it.bounds(t); ok && lo == hi {
		return lo
	}
	var excluded []int
	for tries := 0; tries < 100000; tries++ {
		if d := it.nextDecision(); d >= 0 {
			v := it.prefix[len(it.decisions)+1]
			it.decisions = append(it.decisions, d, v)
			vt := it.sameSortInt(t, v)
			if d == 1 {
				it.addPC(it.tb.Eq(t, vt))
				return int64(v)
			}
			it.addPC(it.tb.Not(it.tb.Eq(t, vt)))
			excluded = append(excluded, v)
			continue
		}
		v, ok := it.modelValue(t)
		if !ok {
			panic(pathEnd{"killed", "concretize: no (further) feasible value"})
		}
		iv := int(v.SInt64())
		alt := append(append([]int{}, it.decisions...), 0, iv)
		it.pushWork(alt)
		it.decisions = append(it.decisions, 1, iv)
		it.addPC(it.tb.Eq(t, v))
		it.rep.Transitions++
		return int64(iv)
	}
	it.outside("concretize: too many values")
	return 0
}

// modelValue returns a feasible constant value for t under the current path condition.
func (it *Interp) modelValue(t *Term) (*Term, bool) {
	if it.model != nil {
		if v := it.tb.Eval(t, it.model, it.modelMemo); v != nil && v.IsConst() {
			return v, true
		}
	}
	fresh := it.tb.Var(fmt.Sprintf("$c%d", t.ID), t.S)
	lits := append(append([]*Term{}, it.pc...), it.tb.Same(fresh, t))
	vars := append(it.allVars(lits))
	r, m := it.sv.Check(it.tb, lits, vars)
	it.rep.BranchQueries++
	if r != Sat || m[fresh.Name] == nil {
		if r == Unknown {
			panic(pathEnd{"inconclusive", "concretize: solver unknown"})
		}
		return nil, false
	}
	it.model = m
	it.modelMemo = map[*Term]*Term{}
	return m[fresh.Name], true
}

// ---------- cheap interval reasoning over integer terms ----------

const ivLimit = int64(1) << 40

func (it *Interp) bounds(t *Term) (int64, int64, bool) {
	if t.S.K != SBV && t.S.K != SInt {
		return 0, 0, false
	}
	if t.IsConst() {
		v := t.SInt64()
		return v, v, true
	}
	if r, ok := it.ivMemo[t]; ok {
		return r[0], r[1], r[2] == 1
	}
	lo, hi, ok := it.bounds1(t)
	if ok && (lo < -ivLimit || hi > ivLimit) {
		ok = false
	}
	it.ivMemo[t] = [3]int64{lo, hi, int64(b2i(ok))}
	return lo, hi, ok
}

func (it *Interp) bounds1(t *Term) (int64, int64, bool) {
	switch t.Op {
	case "var":
		if r, ok := it.varRange[t]; ok {
			return r[0], r[1], true
		}
	case "ite":
		a0, a1, ok1 := it.bounds(t.Args[1])
		b0, b1, ok2 := it.bounds(t.Args[2])
		if ok1 && ok2 {
			return min(a0, b0), max(a1, b1), true
		}
	case "bvadd", "+":
		a0, a1, ok1 := it.bounds(t.Args[0])
		b0, b1, ok2 := it.bounds(t.Args[1])
		if ok1 && ok2 && (t.S.K == SInt || t.S.W == 64) {
			return a0 + b0, a1 + b1, true
		}
	case "bvsub", "-":
		if len(t.Args) == 2 {
			a0, a1, ok1 := it.bounds(t.Args[0])
			b0, b1, ok2 := it.bounds(t.Args[1])
			if ok1 && ok2 && (t.S.K == SInt || t.S.W == 64) {
				return a0 - b1, a1 - b0, true
			}
		}
	case "bvmul", "*":
		a0, a1, ok1 := it.bounds(t.Args[0])
		b0, b1, ok2 := it.bounds(t.Args[1])
		if ok1 && ok2 && (t.S.K == SInt || t.S.W == 64) {
			c := []int64{a0 * b0, a0 * b1, a1 * b0, a1 * b1}
			return min(c[0], c[1], c[2], c[3]), max(c[0], c[1], c[2], c[3]), true
		}
	case "zero_extend":
		a0, a1, ok := it.bounds(t.Args[0])
		if ok && a0 >= 0 {
			return a0, a1, true
		}
		if t.Args[0].S.W <= 32 {
			return 0, int64(mask(t.Args[0].S.W)), true
		}
	case "sign_extend":
		return it.bounds(t.Args[0])
	}
	if t.S.K == SBV && t.S.W <= 16 && t.Op == "var" {
		return -(1 << uint(t.S.W-1)), int64(mask(t.S.W)), true
	}
	return 0, 0, false
}

// intervalDecide answers comparisons that the interval domain already settles.
func (it *Interp) intervalDecide(c *Term) (bool, bool) {
	neg := false
	for c.Op == "not" {
		c = c.Args[0]
		neg = !neg
	}
	res := func(b bool) (bool, bool) { return b != neg, true }
	switch c.Op {
	case "and":
		a, ok1 := it.intervalDecide(c.Args[0])
		b, ok2 := it.intervalDecide(c.Args[1])
		if (ok1 && !a) || (ok2 && !b) {
			return res(false)
		}
		if ok1 && ok2 {
			return res(true)
		}
	case "bvslt", "<", "bvsle", "<=":
		if c.Args[0].S.K == SReal {
			if v, ok := it.realDecide(c.Op, c.Args[0], c.Args[1]); ok {
				return res(v)
			}
			return false, false
		}
		if c.Args[0].S.K != SBV && c.Args[0].S.K != SInt {
			return false, false
		}
		a0, a1, ok1 := it.bounds(c.Args[0])
		b0, b1, ok2 := it.bounds(c.Args[1])
		if !ok1 || !ok2 {
			return false, false
		}
		strict := c.Op == "bvslt" || c.Op == "<"
		if strict {
			if a1 < b0 {
				return res(true)
			}
			if a0 >= b1 {
				return res(false)
			}
		} else {
			if a1 <= b0 {
				return res(true)
			}
			if a0 > b1 {
				return res(false)
			}
		}
	case "=":
		if c.Args[0].S.K == SReal {
			if v, ok := it.realDecide("=", c.Args[0], c.Args[1]); ok {
				return res(v)
			}
			return false, false
		}
		if c.Args[0].S.K != SBV && c.Args[0].S.K != SInt {
			return false, false
		}
		a0, a1, ok1 := it.bounds(c.Args[0])
		b0, b1, ok2 := it.bounds(c.Args[1])
		if ok1 && ok2 && (a1 < b0 || b1 < a0) {
			return res(false)
		}
	}
	return false, false
}

// ---------- operand access ----------

func (it *Interp) get(fr *Frame, v ssa.Value) Value {
	switch x := v.(type) {
	case *ssa.Const:
		return it.constValue(x)
	case *ssa.Global:
		return Ptr{Obj: it.global(x)}
	case *ssa.Function:
		return &Closure{Fn: x}
	case *ssa.Builtin:
		return &BuiltinV{x}
	}
	i, ok := fr.info.idx[v]
	if !ok {
		panic(fmt.Sprintf("internal: no slot for %s in %s", v.Name(), fr.fn))
	}
	return fr.env[i]
}

func (it *Interp) set(fr *Frame, v ssa.Value, x Value) {
	fr.env[fr.info.idx[v]] = x
}

// ---------- globals and package initialisation ----------

func (it *Interp) global(g *ssa.Global) *Object {
	if o, ok := it.globals[g]; ok {
		return o
	}
	pkg := g.Pkg
	it.ensureInit(pkg)
	if o, ok := it.globals[g]; ok {
		return o
	}
	o := it.newObject(it.zero(g.Type().(*types.Pointer).Elem()), g.Type().(*types.Pointer).Elem())
	o.Label = g.String()
	it.globals[g] = o
	return o
}

func (it *Interp) ensureInit(pkg *ssa.Package) {
	if pkg == nil || it.initDone[pkg] {
		return
	}
	it.initDone[pkg] = true
	if !it.initOK(pkg) {
		it.outside("read of a global of package %s, which is not on the initialisation allowlist", pkg.Pkg.Path())
	}
	// allocate all globals first
	for _, m := range pkg.Members {
		if g, ok := m.(*ssa.Global); ok {
			if _, ok := it.globals[g]; !ok {
				et := g.Type().(*types.Pointer).Elem()
				o := it.newObject(it.zero(et), et)
				o.Label = g.String()
				it.globals[g] = o
			}
		}
	}
	initFn := pkg.Func("init")
	if initFn == nil || len(initFn.Blocks) == 0 {
		return
	}
	savedPrefixMode := it.cur
	_ = savedPrefixMode
	it.runInit(initFn)
}

// runInit interprets the synthesized package initialiser: variable initialisers only.
func (it *Interp) runInit(fn *ssa.Function) {
	fr := &Frame{fn: fn, info: it.info(fn), visits: map[*ssa.BasicBlock]int{}, visitDec: map[*ssa.BasicBlock]int{}, concVisits: map[*ssa.BasicBlock]int{}, thread: it.cur}
	fr.env = make([]Value, fr.info.n)
	// Skip the init guard: start at the block that follows the guard check ("init.start").
	start := fn.Blocks[0]
	for _, b := range fn.Blocks {
		if b.Comment == "init.start" {
			start = b
		}
	}
	fr.block = start
	it.runFrame(fr, true)
}

// ---------- calls ----------

const maxDepth = 400

func (it *Interp) callValue(fnv Value, args []Value, site ssa.Instruction) Value {
	switch f := fnv.(type) {
	case *Closure:
		if f == nil {
			it.runtimePanic("invalid memory address or nil pointer dereference (nil func call)")
		}
		if f.Native != nil {
			return f.Native(it, args)
		}
		return it.call(f.Fn, args, f.Env)
	case *BuiltinV:
		return it.callBuiltin(f.B, args, site)
	}
	panic(fmt.Sprintf("internal: call of %T", fnv))
}

func (it *Interp) call(fn *ssa.Function, args []Value, env []Value) (result Value) {
	if h := it.lookupIntrinsic(fn); h != nil {
		return h(it, fn, args)
	}
	if len(fn.Blocks) == 0 {
		it.outside("call of function without body: %s", fn.String())
	}
	if it.depth > maxDepth {
		it.outside("call depth exceeded in %s", fn.String())
	}
	if it.funcHits != nil && fn.Pkg != nil {
		it.funcHits[fn.String()] = true
	} else if it.funcHits != nil && fn.Origin() != nil {
		it.funcHits[fn.String()] = true
	}
	fr := &Frame{fn: fn, info: it.info(fn), visits: map[*ssa.BasicBlock]int{}, visitDec: map[*ssa.BasicBlock]int{}, concVisits: map[*ssa.BasicBlock]int{}, thread: it.cur}
	fr.env = make([]Value, fr.info.n)
	for i, p := range fn.Params {
		if i < len(args) {
			fr.env[fr.info.idx[p]] = args[i]
		}
	}
	for i, p := range fn.FreeVars {
		fr.env[fr.info.idx[p]] = env[i]
	}
	fr.block = fn.Blocks[0]
	it.depth++
	it.stack = append(it.stack, fn)
	defer func() {
		it.depth--
		if len(it.stack) > 0 {
			it.stack = it.stack[:len(it.stack)-1]
		}
	}()
	return it.runFrame(fr, false)
}

// runFrame executes a frame to completion, handling interpreted panics and defers.
func (it *Interp) runFrame(fr *Frame, isInit bool) (result Value) {
	defer func() {
		r := recover()
		if r == nil {
			return
		}
		gp, ok := r.(*goPanic)
		if !ok {
			panic(r)
		}
		fr.panicking = gp
		it.runDefers(fr)
		if fr.panicking != nil {
			panic(fr.panicking)
		}
		// recovered
		if fr.fn.Recover != nil {
			fr.block = fr.fn.Recover
			fr.prev = nil
			result = it.runFrame(fr, isInit)
			return
		}
		result = it.zeroResults(fr.fn)
	}()
	for {
		if fr.visits != nil {
			// The unwinding bound counts revisits of a block between which a solver-relevant decision was
			// taken (loops whose trip count depends on symbolic data). Revisits with no decision in between
			// are concrete iterations (table initialisers, fixed-size copies): they are bounded by the much
			// larger concrete bound and by the step budget.
			nd := len(it.decisions)
			if last, seen := fr.visitDec[fr.block]; seen && last == nd {
				fr.concVisits[fr.block]++
				if fr.concVisits[fr.block] > it.cfg.UnwindConcrete {
					panic(pathEnd{"unwind", fmt.Sprintf("concrete iteration bound %d reached in %s block %d", it.cfg.UnwindConcrete, fr.fn, fr.block.Index)})
				}
			} else {
				fr.visits[fr.block]++
				if fr.visits[fr.block] > it.cfg.Unwind {
					panic(pathEnd{"unwind", fmt.Sprintf("unwinding bound %d reached in %s block %d", it.cfg.Unwind, fr.fn, fr.block.Index)})
				}
			}
			fr.visitDec[fr.block] = nd
		}
		var next *ssa.BasicBlock
		done := false
		for _, in := range fr.block.Instrs {
			it.steps++
			if it.steps > it.cfg.MaxSteps {
				panic(pathEnd{"unwind", "step budget exhausted"})
			}
			switch x := in.(type) {
			case *ssa.Phi:
				for i, p := range fr.block.Preds {
					if p == fr.prev {
						it.set(fr, x, it.get(fr, x.Edges[i]))
						break
					}
				}
			case *ssa.If:
				c := it.get(fr, x.Cond).(*Term)
				if it.decide(c) {
					next = fr.block.Succs[0]
				} else {
					next = fr.block.Succs[1]
				}
			case *ssa.Jump:
				next = fr.block.Succs[0]
			case *ssa.Return:
				switch len(x.Results) {
				case 0:
					result = nil
				case 1:
					result = it.get(fr, x.Results[0])
				default:
					t := make(Tuple, len(x.Results))
					for i, r := range x.Results {
						t[i] = it.get(fr, r)
					}
					result = t
				}
				done = true
			case *ssa.Panic:
				v := it.get(fr, x.X)
				panic(&goPanic{val: v, msg: it.describe(v), stack: fr.fn.String()})
			case *ssa.RunDefers:
				it.runDefers(fr)
			default:
				if isInit {
					if c, ok := in.(*ssa.Call); ok {
						if callee := c.Call.StaticCallee(); callee != nil && (callee.Name() == "init" || strings.HasPrefix(callee.Name(), "init#")) && callee.Signature.Recv() == nil && callee.Signature.Params().Len() == 0 {
							continue // other packages are initialised lazily; user init functions are skipped
						}
					}
				}
				it.exec(fr, in)
			}
			if next != nil || done {
				break
			}
		}
		if done {
			return result
		}
		if next == nil {
			panic(fmt.Sprintf("internal: block %d of %s fell through", fr.block.Index, fr.fn))
		}
		fr.prev = fr.block
		fr.block = next
	}
}

func (it *Interp) zeroResults(fn *ssa.Function) Value {
	res := fn.Signature.Results()
	switch res.Len() {
	case 0:
		return nil
	case 1:
		return it.zero(res.At(0).Type())
	}
	return it.zero(res)
}

func (it *Interp) runDefers(fr *Frame) {
	for len(fr.defers) > 0 {
		d := fr.defers[len(fr.defers)-1]
		fr.defers = fr.defers[:len(fr.defers)-1]
		saved := it.recoverable
		it.recoverable = &fr.panicking
		func() {
			defer func() { it.recoverable = saved }()
			if d.call != nil && d.call.IsInvoke() {
				it.invoke(d.fn, d.call, d.args)
			} else {
				it.callValue(d.fn, d.args, nil)
			}
		}()
	}
}

// where names the innermost polyform functions on the interpreted stack.
func (it *Interp) where() string {
	var st []string
	for i := len(it.stack) - 1; i >= 0 && len(st) < 3; i-- {
		st = append(st, it.stack[i].String())
	}
	return strings.Join(st, " < ")
}

func (it *Interp) runtimePanic(msg string) {
	var st []string
	for i := len(it.stack) - 1; i >= 0 && len(st) < 4; i-- {
		st = append(st, it.stack[i].String())
	}
	panic(&goPanic{runtime: true, msg: "runtime error: " + msg, stack: strings.Join(st, " < ")})
}

func (it *Interp) describe(v Value) string {
	switch x := v.(type) {
	case Iface:
		if x.T == nil {
			return "nil"
		}
		if s, ok := x.V.(string); ok {
			return s
		}
		if p, ok := x.V.(Ptr); ok && p.Obj != nil {
			if sv, ok := p.Obj.V.(*StructV); ok && len(sv.F) > 0 {
				if s, ok := sv.F[0].(string); ok {
					return x.T.String() + ": " + s
				}
			}
		}
		return x.T.String()
	case string:
		return x
	}
	return fmt.Sprintf("%T", v)
}

func (it *Interp) invoke(recv Value, cc *ssa.CallCommon, args []Value) Value {
	ifc, ok := recv.(Iface)
	if !ok {
		panic(fmt.Sprintf("internal: invoke on %T", recv))
	}
	if ifc.T == nil {
		it.runtimePanic("invalid memory address or nil pointer dereference (method call on nil interface)")
	}
	m := it.findMethod(ifc.T, cc.Method.Pkg(), cc.Method.Name())
	if m == nil {
		it.outside("no method %s on %s", cc.Method.Name(), ifc.T)
	}
	return it.call(m, append([]Value{ifc.V}, args...), nil)
}

func (it *Interp) doCall(fr *Frame, cc *ssa.CallCommon, site ssa.Instruction) Value {
	args := make([]Value, len(cc.Args))
	for i, a := range cc.Args {
		args[i] = it.get(fr, a)
	}
	if cc.IsInvoke() {
		return it.invoke(it.get(fr, cc.Value), cc, args)
	}
	return it.callValue(it.get(fr, cc.Value), args, site)
}

func dbg(format string, a ...interface{}) {
	if os.Getenv("GOSYM_DEBUG") != "" {
		fmt.Fprintf(os.Stderr, format+"\n", a...)
	}
}

// exec executes a non-control instruction.
func (it *Interp) exec(fr *Frame, in ssa.Instruction) {
	switch x := in.(type) {
	case *ssa.DebugRef:
	case *ssa.Alloc:
		et := x.Type().(*types.Pointer).Elem()
		it.set(fr, x, Ptr{Obj: it.newObject(it.zero(et), et)})
	case *ssa.UnOp:
		it.set(fr, x, it.unop(fr, x))
	case *ssa.BinOp:
		it.set(fr, x, it.binop(x.Op, it.get(fr, x.X), it.get(fr, x.Y), x.X.Type(), x.Y.Type()))
	case *ssa.Call:
		it.set(fr, x, it.doCall(fr, &x.Call, x))
	case *ssa.ChangeInterface:
		it.set(fr, x, it.get(fr, x.X))
	case *ssa.ChangeType:
		it.set(fr, x, it.get(fr, x.X))
	case *ssa.Convert:
		it.set(fr, x, it.convert(it.get(fr, x.X), x.X.Type(), x.Type()))
	case *ssa.Extract:
		it.set(fr, x, it.get(fr, x.Tuple).(Tuple)[x.Index])
	case *ssa.Field:
		it.set(fr, x, it.get(fr, x.X).(*StructV).F[x.Field])
	case *ssa.FieldAddr:
		p := it.get(fr, x.X).(Ptr)
		if p.IsNil() {
			it.runtimePanic("invalid memory address or nil pointer dereference")
		}
		it.set(fr, x, p.child(PathElem{I: x.Field}))
	case *ssa.Index:
		it.set(fr, x, it.indexValue(it.get(fr, x.X), it.get(fr, x.Index).(*Term), x.X.Type(), x.Index.Type()))
	case *ssa.IndexAddr:
		it.set(fr, x, it.indexAddr(it.get(fr, x.X), it.get(fr, x.Index).(*Term), x.Index.Type()))
	case *ssa.Lookup:
		it.set(fr, x, it.lookup(fr, x))
	case *ssa.MakeClosure:
		env := make([]Value, len(x.Bindings))
		for i, b := range x.Bindings {
			env[i] = it.get(fr, b)
		}
		it.set(fr, x, &Closure{Fn: x.Fn.(*ssa.Function), Env: env})
	case *ssa.MakeInterface:
		it.set(fr, x, Iface{T: x.X.Type(), V: it.get(fr, x.X)})
	case *ssa.MakeMap:
		it.objSeq++
		it.set(fr, x, MapV{M: &MapObj{ID: it.objSeq, T: x.Type().Underlying().(*types.Map)}})
	case *ssa.MakeSlice:
		n := int(it.concretize(it.get(fr, x.Len).(*Term)))
		c := int(it.concretize(it.get(fr, x.Cap).(*Term)))
		if n < 0 || c < n {
			it.runtimePanic("makeslice: len out of range")
		}
		if c > it.cfg.MaxAlloc {
			it.outside("make of %d elements exceeds the allocation bound %d", c, it.cfg.MaxAlloc)
		}
		et := x.Type().Underlying().(*types.Slice).Elem()
		it.set(fr, x, it.makeSlice(et, n, c))
	case *ssa.MakeChan:
		c := int(it.concretize(it.get(fr, x.Size).(*Term)))
		it.objSeq++
		it.set(fr, x, &ChanObj{ID: it.objSeq, Cap: c, T: x.Type()})
	case *ssa.MapUpdate:
		m := it.get(fr, x.Map).(MapV)
		if m.M == nil {
			it.runtimePanic("assignment to entry in nil map")
		}
		it.mapUpdate(m.M, it.get(fr, x.Key), copyVal(it.get(fr, x.Value)))
	case *ssa.Range:
		it.set(fr, x, it.makeRange(it.get(fr, x.X)))
	case *ssa.Next:
		it.set(fr, x, it.next(it.get(fr, x.Iter).(*MapIter), x))
	case *ssa.Slice:
		it.set(fr, x, it.sliceOp(fr, x))
	case *ssa.Store:
		p := it.get(fr, x.Addr).(Ptr)
		it.store(p, it.get(fr, x.Val))
	case *ssa.TypeAssert:
		it.set(fr, x, it.typeAssert(it.get(fr, x.X).(Iface), x))
	case *ssa.Defer:
		args := make([]Value, len(x.Call.Args))
		for i, a := range x.Call.Args {
			args[i] = it.get(fr, a)
		}
		fr.defers = append(fr.defers, deferred{fn: it.get(fr, x.Call.Value), args: args, call: &x.Call})
	case *ssa.Go:
		it.goStmt(fr, x)
	case *ssa.Send:
		it.chanSend(it.get(fr, x.Chan).(*ChanObj), it.get(fr, x.X))
	case *ssa.Select:
		it.set(fr, x, it.selectOp(fr, x))
	case *ssa.SliceToArrayPointer:
		s := it.get(fr, x.X).(SliceV)
		n := int(x.Type().(*types.Pointer).Elem().Underlying().(*types.Array).Len())
		if s.Len < n {
			it.runtimePanic("cannot convert slice to array pointer: length too short")
		}
		if s.Off != 0 || n != it.arrayLen(s.Arr) {
			it.outside("slice-to-array-pointer conversion of a sub-slice")
		}
		it.set(fr, x, s.Arr)
	default:
		it.outside("unsupported SSA instruction %T in %s", in, fr.fn)
	}
}

func (it *Interp) arrayLen(p Ptr) int {
	if p.Obj == nil {
		return 0
	}
	v, _ := it.loadRaw(p)
	return len(v.(*ArrayV).E)
}

func (it *Interp) typeAssert(x Iface, ta *ssa.TypeAssert) Value {
	ok := false
	if x.T != nil {
		if ai, isI := ta.AssertedType.Underlying().(*types.Interface); isI {
			ok = types.Implements(x.T, ai)
			if !ok {
				// pointer receiver methods
				ok = types.AssertableTo(ai, x.T) && types.Implements(x.T, ai)
			}
		} else {
			ok = types.Identical(x.T, ta.AssertedType)
		}
	}
	_, toIface := ta.AssertedType.Underlying().(*types.Interface)
	var val Value
	if ok {
		if toIface {
			val = x
		} else {
			val = x.V
		}
	} else {
		val = it.zero(ta.AssertedType)
	}
	if ta.CommaOk {
		return Tuple{val, it.tb.BoolC(ok)}
	}
	if !ok {
		from := "nil"
		if x.T != nil {
			from = x.T.String()
		}
		it.runtimePanic(fmt.Sprintf("interface conversion: interface is %s, not %s", from, ta.AssertedType))
	}
	return val
}

var _ = token.ADD

// findMethod is a non-panicking method lookup (nil when T has no such method).
func (it *Interp) findMethod(T types.Type, pkg *types.Package, name string) *ssa.Function {
	sel := it.prog.MethodSets.MethodSet(T).Lookup(pkg, name)
	if sel == nil {
		return nil
	}
	return it.prog.MethodValue(sel)
}

const (
	markLazy  = -1 << 62
	markEager = -1<<62 + 1
)
