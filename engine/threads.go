package main

// Interpreter threads (goroutines), controlled scheduling, sync primitives, channels and a
// vector-clock happens-before race monitor.

import (
	"fmt"
	"go/types"
	"strings"

	"golang.org/x/tools/go/ssa"
)

type VC map[int]int

func (v VC) copy() VC {
	n := VC{}
	for k, x := range v {
		n[k] = x
	}
	return n
}
func (v VC) join(o VC) {
	for k, x := range o {
		if x > v[k] {
			v[k] = x
		}
	}
}

type Thread struct {
	id      int
	resume  chan struct{}
	exited  chan struct{}
	done    bool
	blocked func() bool // non-nil and returning true: cannot run
	vc      VC
	name    string
}

type threadKill struct{}

type syncState struct {
	locked  bool
	rlocks  int
	counter int
	vc      VC
	rvc     VC // releases by readers (RUnlock): ordered before the next writer only, never before other readers
	onceRan bool
}

type access struct {
	tid   int
	clock int
	write bool
	guard *Term
	where string
}

type Sched struct {
	sync        map[string]*syncState
	cells       map[string][]access
	abort       *pathEnd
	abortGP     *goPanic
	switches    int
	preemptions int
}

func (it *Interp) initThreads() {
	main := &Thread{id: 0, resume: make(chan struct{}, 1), exited: make(chan struct{}), vc: VC{0: 1}, name: "main"}
	it.threads = []*Thread{main}
	it.cur = main
	it.sched = &Sched{sync: map[string]*syncState{}, cells: map[string][]access{}}
}

func (it *Interp) enabled(except *Thread) []*Thread {
	var r []*Thread
	for _, t := range it.threads {
		if t.done || t == except {
			continue
		}
		if t.blocked != nil && t.blocked() {
			continue
		}
		r = append(r, t)
	}
	return r
}

// transfer hands the baton to t and suspends the calling thread until it is resumed.
func (it *Interp) transfer(from, to *Thread) {
	if from == to {
		return
	}
	it.sched.switches++
	it.cur = to
	to.resume <- struct{}{}
	<-from.resume
	if it.sched.abort != nil || it.sched.abortGP != nil {
		if from.id == 0 {
			if it.sched.abort != nil {
				pe := *it.sched.abort
				panic(pe)
			}
			panic(it.sched.abortGP)
		}
		panic(threadKill{})
	}
	it.cur = from
}

func (it *Interp) pick(cands []*Thread) *Thread {
	if len(cands) == 1 {
		return cands[0]
	}
	if it.cfg.Sched == "all" {
		return cands[it.choose(len(cands))]
	}
	return cands[0]
}

// schedPoint lets any enabled thread (including the current one) run next.
func (it *Interp) schedPoint() {
	if len(it.threads) <= 1 {
		return
	}
	en := it.enabled(nil)
	// keep the current thread first so that choice 0 = "continue"
	var ordered []*Thread
	for _, t := range en {
		if t == it.cur {
			ordered = append(ordered, t)
		}
	}
	for _, t := range en {
		if t != it.cur {
			ordered = append(ordered, t)
		}
	}
	if len(ordered) == 0 {
		it.deadlock()
	}
	var next *Thread
	if it.cfg.Sched == "all" {
		// preemption bounding (CHESS): switching away from a thread that could continue is a preemption;
		// at most cfg.Preemptions of them per path. Switches at blocking operations / thread exit are free.
		if ordered[0] == it.cur && it.sched.preemptions >= it.cfg.Preemptions {
			next = it.cur
		} else {
			next = it.pick(ordered)
			if ordered[0] == it.cur && next != it.cur {
				it.sched.preemptions++
			}
		}
	} else {
		// deterministic: prefer other threads (run children eagerly) so workers actually interleave with main
		next = ordered[len(ordered)-1]
		if len(ordered) > 1 {
			next = ordered[1]
		}
	}
	it.transfer(it.cur, next)
}

func (it *Interp) deadlock() {
	it.rep.addViolation(it, "deadlock", "all goroutines are asleep", nil)
	panic(pathEnd{"killed", "deadlock"})
}

// blockUntil suspends the current thread until cond holds.
func (it *Interp) blockUntil(cond func() bool) {
	me := it.cur
	for !cond() {
		me.blocked = func() bool { return !cond() }
		en := it.enabled(me)
		if len(en) == 0 {
			it.deadlock()
		}
		it.transfer(me, it.pick(en))
	}
	me.blocked = nil
}

func (it *Interp) goStmt(fr *Frame, g *ssa.Go) {
	args := make([]Value, len(g.Call.Args))
	for i, a := range g.Call.Args {
		args[i] = it.get(fr, a)
	}
	var recv Value
	var fnv Value
	if g.Call.IsInvoke() {
		recv = it.get(fr, g.Call.Value)
	} else {
		fnv = it.get(fr, g.Call.Value)
	}
	parent := it.cur
	t := &Thread{id: len(it.threads), resume: make(chan struct{}, 1), exited: make(chan struct{}), vc: parent.vc.copy()}
	t.vc[t.id] = 1
	parent.vc[parent.id]++
	it.threads = append(it.threads, t)
	if len(it.threads) > it.cfg.MaxThreads {
		it.outside("more than %d goroutines", it.cfg.MaxThreads)
	}
	go func() {
		<-t.resume
		defer close(t.exited)
		if it.sched.abort != nil || it.sched.abortGP != nil {
			t.done = true
			return
		}
		it.cur = t
		func() {
			defer func() {
				r := recover()
				if r == nil {
					return
				}
				switch x := r.(type) {
				case threadKill:
				case pathEnd:
					if it.sched.abort == nil {
						it.sched.abort = &x
					}
				case *goPanic:
					if it.sched.abortGP == nil && it.sched.abort == nil {
						it.sched.abortGP = x
					}
				default:
					pe := pathEnd{"internal", fmt.Sprint(r)}
					it.sched.abort = &pe
				}
			}()
			savedDepth := it.depth
			it.depth = 0
			it.stack = nil
			if recv != nil {
				it.invoke(recv, &g.Call, args)
			} else {
				it.callValue(fnv, args, g)
			}
			it.depth = savedDepth
		}()
		t.done = true
		if it.sched.abort != nil || it.sched.abortGP != nil {
			// wake main so that it can unwind
			m := it.threads[0]
			if it.cur == t {
				it.cur = m
				m.resume <- struct{}{}
			}
			return
		}
		en := it.enabled(nil)
		if len(en) == 0 {
			pe := pathEnd{"killed", "deadlock"}
			it.rep.addViolation(it, "deadlock", "all goroutines are asleep", nil)
			it.sched.abort = &pe
			m := it.threads[0]
			it.cur = m
			m.resume <- struct{}{}
			return
		}
		next := it.pick(en)
		it.sched.switches++
		it.cur = next
		next.resume <- struct{}{}
	}()
	it.schedPoint()
}

// killThreads terminates all suspended interpreter threads at the end of a path.
func (it *Interp) killThreads() {
	if it.sched == nil {
		return
	}
	if it.sched.abort == nil {
		pe := pathEnd{"killed", "path end"}
		it.sched.abort = &pe
	}
	for _, t := range it.threads[1:] {
		if !t.done {
			t.resume <- struct{}{}
		}
		<-t.exited
	}
}

// ---------- sync objects ----------

func ptrKey(p Ptr) string {
	var sb strings.Builder
	fmt.Fprintf(&sb, "%d", p.Obj.ID)
	for _, e := range p.Path {
		if e.Sym != nil {
			fmt.Fprintf(&sb, "/s%d+%d", e.Sym.ID, e.Off)
		} else {
			fmt.Fprintf(&sb, "/%d", e.I)
		}
	}
	return sb.String()
}

func (it *Interp) syncObj(p Ptr) *syncState {
	if p.IsNil() {
		it.runtimePanic("invalid memory address or nil pointer dereference (sync object)")
	}
	k := ptrKey(p)
	s, ok := it.sched.sync[k]
	if !ok {
		s = &syncState{vc: VC{}}
		it.sched.sync[k] = s
	}
	return s
}

func (it *Interp) release(s *syncState) {
	s.vc.join(it.cur.vc)
	it.cur.vc[it.cur.id]++
}
func (it *Interp) acquire(s *syncState) { it.cur.vc.join(s.vc) }

func (it *Interp) mutexLock(p Ptr) {
	s := it.syncObj(p)
	it.schedPoint()
	it.blockUntil(func() bool { return !s.locked && s.rlocks == 0 })
	s.locked = true
	it.acquire(s)
	if s.rvc != nil {
		it.cur.vc.join(s.rvc)
	}
}
func (it *Interp) mutexUnlock(p Ptr) {
	s := it.syncObj(p)
	if !s.locked {
		panic(&goPanic{msg: "fatal error: sync: unlock of unlocked mutex", runtime: true})
	}
	it.release(s)
	s.locked = false
}
func (it *Interp) rlock(p Ptr) {
	s := it.syncObj(p)
	it.schedPoint()
	it.blockUntil(func() bool { return !s.locked })
	s.rlocks++
	it.acquire(s)
}
func (it *Interp) runlock(p Ptr) {
	s := it.syncObj(p)
	// a reader's release is visible to the next writer only: two read-locked sections are not ordered by the lock
	if s.rvc == nil {
		s.rvc = VC{}
	}
	s.rvc.join(it.cur.vc)
	it.cur.vc[it.cur.id]++
	s.rlocks--
}
func (it *Interp) wgAdd(p Ptr, n int) {
	s := it.syncObj(p)
	if n < 0 {
		it.release(s)
	}
	s.counter += n
	if s.counter < 0 {
		panic(&goPanic{msg: "sync: negative WaitGroup counter"})
	}
}
func (it *Interp) wgWait(p Ptr) {
	s := it.syncObj(p)
	it.schedPoint()
	it.blockUntil(func() bool { return s.counter == 0 })
	it.acquire(s)
}

// ---------- channels ----------

type chanMsg struct {
	v  Value
	vc VC
}

func (it *Interp) chanSend(c *ChanObj, v Value) {
	if c == nil {
		it.blockUntil(func() bool { return false })
	}
	it.schedPoint()
	if c.Closed {
		panic(&goPanic{msg: "send on closed channel"})
	}
	// unbuffered channels are modelled with a one-slot buffer plus a wait until the slot is drained
	capn := c.Cap
	if capn == 0 {
		capn = 1
	}
	it.blockUntil(func() bool { return len(c.Buf) < capn || c.Closed })
	if c.Closed {
		panic(&goPanic{msg: "send on closed channel"})
	}
	vc := it.cur.vc.copy()
	it.cur.vc[it.cur.id]++
	c.Buf = append(c.Buf, chanMsg{copyVal(v), vc})
	if c.Cap == 0 {
		n := len(c.Buf)
		_ = n
		it.blockUntil(func() bool { return len(c.Buf) == 0 || c.Closed })
	}
}

func (it *Interp) chanRecv(c *ChanObj, t types.Type, commaOk bool) (Value, bool) {
	if c == nil {
		it.blockUntil(func() bool { return false })
	}
	it.schedPoint()
	it.blockUntil(func() bool { return len(c.Buf) > 0 || c.Closed })
	if len(c.Buf) > 0 {
		m := c.Buf[0].(chanMsg)
		c.Buf = c.Buf[1:]
		it.cur.vc.join(m.vc)
		return m.v, true
	}
	// closed
	s := it.chanSync(c)
	it.acquire(s)
	et := c.T.Underlying().(*types.Chan).Elem()
	return it.zero(et), false
}

func (it *Interp) chanSync(c *ChanObj) *syncState {
	k := fmt.Sprintf("chan%d", c.ID)
	s, ok := it.sched.sync[k]
	if !ok {
		s = &syncState{vc: VC{}}
		it.sched.sync[k] = s
	}
	return s
}

func (it *Interp) chanClose(c *ChanObj) {
	if c == nil {
		panic(&goPanic{msg: "close of nil channel"})
	}
	if c.Closed {
		panic(&goPanic{msg: "close of closed channel"})
	}
	it.release(it.chanSync(c))
	c.Closed = true
}

func (it *Interp) selectOp(fr *Frame, s *ssa.Select) Value {
	it.schedPoint()
	type st struct {
		c    *ChanObj
		send bool
		v    Value
	}
	states := make([]st, len(s.States))
	for i, x := range s.States {
		c, _ := it.get(fr, x.Chan).(*ChanObj)
		states[i] = st{c: c, send: x.Dir == types.SendOnly}
		if states[i].send {
			states[i].v = it.get(fr, x.Send)
		}
	}
	ready := func() []int {
		var r []int
		for i, x := range states {
			if x.c == nil {
				continue
			}
			if x.send {
				capn := x.c.Cap
				if capn == 0 {
					capn = 1
				}
				if len(x.c.Buf) < capn || x.c.Closed {
					r = append(r, i)
				}
			} else if len(x.c.Buf) > 0 || x.c.Closed {
				r = append(r, i)
			}
		}
		return r
	}
	rd := ready()
	if len(rd) == 0 {
		if !s.Blocking {
			return it.selectResult(s, -1, false, nil)
		}
		it.blockUntil(func() bool { return len(ready()) > 0 })
		rd = ready()
	}
	k := rd[it.choose(len(rd))]
	x := states[k]
	if x.send {
		if x.c.Closed {
			panic(&goPanic{msg: "send on closed channel"})
		}
		vc := it.cur.vc.copy()
		it.cur.vc[it.cur.id]++
		x.c.Buf = append(x.c.Buf, chanMsg{copyVal(x.v), vc})
		return it.selectResult(s, k, false, nil)
	}
	if len(x.c.Buf) > 0 {
		m := x.c.Buf[0].(chanMsg)
		x.c.Buf = x.c.Buf[1:]
		it.cur.vc.join(m.vc)
		return it.selectResult(s, k, true, m.v)
	}
	it.acquire(it.chanSync(x.c))
	return it.selectResult(s, k, false, nil)
}

func (it *Interp) selectResult(s *ssa.Select, idx int, recvOk bool, v Value) Value {
	tt := s.Type().(*types.Tuple)
	r := make(Tuple, tt.Len())
	r[0] = it.mkInt(idx)
	r[1] = it.tb.BoolC(recvOk)
	j := 2
	for i, x := range s.States {
		if x.Dir == types.RecvOnly {
			if i == idx && v != nil {
				r[j] = v
			} else {
				r[j] = it.zero(tt.At(j).Type())
			}
			j++
		}
	}
	return r
}

// ---------- race monitor ----------

func (it *Interp) raceAccess(p Ptr, write bool) {
	if !it.cfg.Race || it.sched == nil || len(it.threads) <= 1 {
		return
	}
	it.raceCells(p.Obj, p.Path, 0, fmt.Sprint(p.Obj.ID), it.tb.True, write)
}

func (it *Interp) raceCells(o *Object, path []PathElem, i int, key string, guard *Term, write bool) {
	if i == len(path) {
		it.raceRecord(key, guard, write, o)
		return
	}
	e := path[i]
	if e.Sym == nil {
		it.raceCells(o, path, i+1, fmt.Sprintf("%s/%d", key, e.I), guard, write)
		return
	}
	for k := 0; k < e.N; k++ {
		g := it.tb.And(guard, it.tb.Eq(e.Sym, it.sameSortInt(e.Sym, k)))
		if g.IsConst() && !g.B {
			continue
		}
		it.raceCells(o, path, i+1, fmt.Sprintf("%s/%d", key, e.Off+k), g, write)
	}
}

// conflictsWith: an access to key K conflicts with accesses to K, to any prefix of K and to any extension of K.
func (it *Interp) raceRecord(key string, guard *Term, write bool, o *Object) {
	me := it.cur
	clock := me.vc[me.id]
	check := func(k string) {
		for _, a := range it.sched.cells[k] {
			if a.tid == me.id || (!a.write && !write) {
				continue
			}
			if a.clock <= me.vc[a.tid] {
				continue // happens-before
			}
			g := it.tb.And(a.guard, guard)
			if g.IsConst() && !g.B {
				continue
			}
			if !g.IsConst() {
				if it.check(g) != Sat {
					continue
				}
			}
			label := o.Label
			if label == "" {
				label = fmt.Sprintf("object %d (%s)", o.ID, o.T)
			}
			it.rep.addViolation(it, "data-race", fmt.Sprintf("unordered conflicting accesses to %s cell %s by goroutines %d and %d", label, key, a.tid, me.id), []*Term{g})
			return
		}
	}
	// same cell and ancestors
	k := key
	for {
		check(k)
		j := strings.LastIndexByte(k, '/')
		if j < 0 {
			break
		}
		k = k[:j]
	}
	// descendants
	pref := key + "/"
	for k2 := range it.sched.cells {
		if strings.HasPrefix(k2, pref) {
			check(k2)
		}
	}
	lst := it.sched.cells[key]
	for i := range lst {
		if lst[i].tid == me.id && lst[i].write == write && lst[i].guard == guard {
			lst[i].clock = clock
			return
		}
	}
	it.sched.cells[key] = append(lst, access{tid: me.id, clock: clock, write: write, guard: guard})
}

func (it *Interp) raceMap(m *MapObj, write bool) {
	if !it.cfg.Race || it.sched == nil || len(it.threads) <= 1 {
		return
	}
	o := &Object{ID: -m.ID, Label: fmt.Sprintf("map %d", m.ID)}
	it.raceRecord(fmt.Sprintf("m%d", m.ID), it.tb.True, write, o)
}
