package marching_test

import (
	"testing"

	"github.com/EliCDavis/polyform/math/geometry"
	"github.com/EliCDavis/polyform/math/sample"
	"github.com/EliCDavis/polyform/modeling"
	"github.com/EliCDavis/polyform/modeling/marching"
	"github.com/EliCDavis/vector/vector3"
)

func ri(f float64) int {
	if f < 0 {
		return -int(-f + 0.5)
	}
	return int(f + 0.5)
}

func TestZZFindingC09OnThreshold(t *testing.T) {
	for _, base := range []int{0, 98, 40} {
		inside := []bool{true, false, false, true, true, true, false, true}
		cutoff := -0.75
		sampleAt := func(x, y, z int) float64 {
			ix, iy, iz := x-base-1, y-base-1, z-base-1
			if ix >= 0 && iy >= 0 && iz >= 0 && ix < 2 && iy < 2 && iz < 2 {
				k := (iz*2+iy)*2 + ix
				if inside[k] {
					return cutoff - 1
				}
				if k == 2 {
					return cutoff
				}
			}
			return cutoff + 1
		}
		f := marching.Field{
			Domain: geometry.NewAABBFromPoints(vector3.New(float64(base), float64(base), float64(base)), vector3.New(float64(base+3), float64(base+3), float64(base+3))),
			Float1Functions: map[string]sample.Vec3ToFloat{
				modeling.PositionAttribute: func(v vector3.Float64) float64 { return sampleAt(ri(v.X()), ri(v.Y()), ri(v.Z())) },
			},
		}
		c := marching.NewMarchingCanvas(1)
		c.AddField(f)
		m := c.March(cutoff)
		idx := m.Indices()
		type e struct{ a, b int }
		edges := map[e]int{}
		for i := 0; i < idx.Len(); i += 3 {
			a, b, cc := idx.At(i), idx.At(i+1), idx.At(i+2)
			edges[e{a, b}]++
			edges[e{b, cc}]++
			edges[e{cc, a}]++
		}
		bad := 0
		pos := m.Float3Attribute(modeling.PositionAttribute)
		for k, n := range edges {
			if n != 1 || edges[e{k.b, k.a}] != 1 {
				bad++
				t.Logf("base %d: edge %v-%v used %d times, opposite %d times", base, pos.At(k.a), pos.At(k.b), n, edges[e{k.b, k.a}])
			}
		}
		if bad > 0 {
			t.Errorf("base %d: %d bad edges, %d tris", base, bad, idx.Len()/3)
		}
	}
}
