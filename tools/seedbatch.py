#!/usr/bin/env python3
"""seedbatch.py <PROP> <outdir> [m1 m2 ...]: register the sub-agent's changes found in <outdir> (mK.diff, zz_demoK_test.go,
notes.json) as /verif/seeded/<prop>-mK via seed.py (validation in a scratch worktree + run of the property's check)."""
import json, os, subprocess, sys
prop, out = sys.argv[1], sys.argv[2]
which = sys.argv[3:] or ['m1', 'm2']
notes = json.load(open(f'{out}/notes.json')) if os.path.exists(f'{out}/notes.json') else {}
start = int(os.environ.get('SEED_START', '1'))
for k in which:
    n = k[1:]
    if not os.path.exists(f'{out}/{k}.diff'):
        print('missing', k); continue
    nk = notes.get(k, {})
    sid = f'{prop.lower()}-m{int(n) + start - 1}'
    cmd = ['python3', '/verif/tools/seed.py', sid, prop, f'{out}/{k}.diff', f'{out}/zz_demo{n}_test.go', nk.get('demo_pkg_dir', '').strip('/'),
           f'TestZZDemo{n}', '--needs', nk.get('needs', ''), '--breaks', nk.get('breaks', '')] + (['--tier', os.environ['SEED_TIER']] if os.environ.get('SEED_TIER') else [])
    subprocess.run(cmd)
