#!/usr/bin/env python3
"""Validate a seeded breaking change and run the property's check against it.

usage: seed.py <id> <property> <patch.diff> <demo_test.go> <pkg-rel-dir> <test-name> [--tier quick|thorough] [--needs "..."] [--breaks "..."]

1. confirms in a scratch worktree of /repo HEAD (under /tmp, removed afterwards): the demo passes without the
   patch; with the patch the build and the existing suite pass and the demo fails;
2. stores patch, demo and meta.json under /verif/seeded/<id>/;
3. applies the patch to /repo, runs ./check <property>, records whether a VIOLATION was reported, and undoes
   the patch (git checkout -- .) straight afterwards.
"""
import json, os, shutil, subprocess, sys, time, argparse
ENV = dict(os.environ, GOFLAGS='-mod=mod', GOPROXY='off', GOSUMDB='off', GOTOOLCHAIN='local')
ap = argparse.ArgumentParser()
ap.add_argument('id'); ap.add_argument('prop'); ap.add_argument('patch'); ap.add_argument('demo'); ap.add_argument('pkg'); ap.add_argument('test')
ap.add_argument('--tier', default='quick'); ap.add_argument('--needs', default=''); ap.add_argument('--breaks', default='')
ap.add_argument('--skip-validate', action='store_true'); ap.add_argument('--timeout', type=int, default=1500)
a = ap.parse_args()

def run(cmd, cwd, timeout=1200):
    p = subprocess.run(cmd, cwd=cwd, env=ENV, shell=True, capture_output=True, text=True, timeout=timeout)
    return p.returncode, (p.stdout + p.stderr)[-3000:]

dest = f'/verif/seeded/{a.id}'
os.makedirs(dest, exist_ok=True)
shutil.copy(a.patch, f'{dest}/patch.diff')
shutil.copy(a.demo, f'{dest}/{os.path.basename(a.demo)}')
meta = {'id': a.id, 'property': a.prop, 'breaks': a.breaks, 'needs': a.needs, 'demo': {'file': os.path.basename(a.demo), 'package_dir': a.pkg, 'test': a.test}, 'ran': []}
ok = True
if not a.skip_validate:
    wt = f'/tmp/seedcheck-{a.id}'
    subprocess.run(f'git -C /repo worktree remove --force {wt}', shell=True, capture_output=True)
    rc, out = run(f'git -C /repo worktree add -q --detach {wt} HEAD', '/repo')
    try:
        shutil.copy(a.demo, f'{wt}/{a.pkg}/{os.path.basename(a.demo)}')
        demo_cmd = f'go test -vet=off -count=1 -run "^{a.test}$" ./{a.pkg}/'
        rc0, o0 = run(demo_cmd, wt)
        meta['ran'].append({'cmd': demo_cmd + ' (without patch)', 'exit': rc0})
        rca, oa = run(f'git apply {dest}/patch.diff', wt)
        meta['ran'].append({'cmd': 'git apply patch.diff', 'exit': rca})
        rcb, ob = run('go build ./... && go test -vet=off -count=1 -skip TestZZDemo ./...', wt)
        meta['ran'].append({'cmd': 'go build ./... && go test -vet=off -count=1 -skip TestZZDemo ./... (with patch)', 'exit': rcb})
        rc1, o1 = run(demo_cmd, wt)
        meta['ran'].append({'cmd': demo_cmd + ' (with patch)', 'exit': rc1})
        ok = (rc0 == 0 and rca == 0 and rcb == 0 and rc1 != 0)
        meta['valid'] = ok
        if not ok:
            meta['validation_output'] = {'demo_without': o0[-800:], 'apply': oa[-400:], 'suite_with': ob[-800:], 'demo_with': o1[-800:]}
    finally:
        subprocess.run(f'git -C /repo worktree remove --force {wt}', shell=True, capture_output=True)
    print(f'[{a.id}] valid={ok} (demo without patch exit {rc0}; apply {rca}; suite with patch {rcb}; demo with patch {rc1})')
if ok:
    # run the property's check against a scratch worktree of /repo HEAD with the patch applied, from a scratch
    # copy of /verif (so that concurrent work in /repo and /verif is not disturbed); both are removed afterwards
    wt = f'/tmp/seedrun-{a.id}'
    vf = f'/tmp/seedverif-{a.id}'
    subprocess.run(f'git -C /repo worktree remove --force {wt}', shell=True, capture_output=True)
    run(f'git -C /repo worktree add -q --detach {wt} HEAD', '/repo')
    subprocess.run(f'rm -rf {vf}; mkdir -p {vf}; rsync -a --exclude .git --exclude work --exclude replays --exclude seeded /verif/ {vf}/', shell=True)
    try:
        rc, out = run(f'git apply {dest}/patch.diff', wt)
        t0 = time.time()
        cmd = f'./bin/gosym -repo {wt} -verif {vf} -spec {vf}/checks/{a.prop.lower()}.json -tier {a.tier} -j 8'
        import signal
        proc = subprocess.Popen(cmd, cwd=vf, env=ENV, shell=True, stdout=subprocess.PIPE, stderr=subprocess.STDOUT, text=True, start_new_session=True)
        try:
            outc, _ = proc.communicate(timeout=a.timeout)
            rcc = proc.returncode
        except subprocess.TimeoutExpired:
            os.killpg(proc.pid, signal.SIGKILL)  # the engine and every solver it started
            outc, _ = proc.communicate()
            rcc = 124
        lines = [l.replace(vf, '/verif') for l in outc.splitlines() if l.startswith('VIOLATION') or l.startswith('  harness=') or l.startswith('BROKEN') or l.startswith('UNCONFIRMED') or l.startswith('INCONCLUSIVE')]
        meta['check'] = {'cmd': f'./check {a.prop} --tier {a.tier}  (run as: gosym -repo <scratch worktree of /repo HEAD + patch> -verif <scratch copy of /verif>)', 'exit': rcc, 'wall_s': round(time.time() - t0, 1), 'detected': rcc == 1, 'lines': lines[:12]}
        print(f'[{a.id}] check exit={rcc} detected={rcc==1} in {time.time()-t0:.0f}s')
        for l in lines[:6]: print('   ', l[:220])
    finally:
        subprocess.run(f'git -C /repo worktree remove --force {wt}; rm -rf {vf}', shell=True, capture_output=True)
json.dump(meta, open(f'{dest}/meta.json', 'w'), indent=1)
