#!/usr/bin/env python3
"""Regenerates /verif/MANIFEST.json from tools/claims.json (claimed checks) and properties.jsonl."""
import json, os
root = os.path.dirname(os.path.dirname(os.path.abspath(__file__)))
props = [json.loads(l) for l in open(os.path.join(root, 'properties.jsonl'))]
claims = json.load(open(os.path.join(root, 'tools', 'claims.json')))
checks, na = [], []
for p in props:
    pid = p['id']
    c = claims.get(pid)
    if c and c.get('claimed'):
        checks.append({
            "property_id": pid,
            "quick_cmd": f"./check {pid} --tier quick",
            "thorough_cmd": f"./check {pid} --tier thorough",
            "evidence_file": f"/verif/evidence/{pid}.json",
            "replay_cmd_template": "./check --replay {path}",
            "engine": "gosym",
            "level_claimed": {"category": "model_checking", "text": c['text'], "design_ref": c.get('design_ref', 'DESIGN.md section 5')},
            "level_note": c['note'],
            "technique": c.get('technique', 'bounded symbolic execution of go/ssa into SMT-LIB2 decided by z3 (unsat on every path = holds within the bounds; sat = counterexample replayed natively)'),
        })
    else:
        na.append({"property_id": pid, "reason": (c or {}).get('reason', 'check not built yet (framework under construction)')})
m = {
    "version": 1,
    "setup_cmd": "cd /verif/engine && GOFLAGS=-mod=mod GOPROXY=off GOSUMDB=off GOTOOLCHAIN=local go build -o /verif/bin/gosym .",
    "hooks": {"guard": "verif", "enable": "no source hooks: harnesses are injected through go/packages and go test -overlay (no file in /repo is modified)",
              "baseline_off_cmd": "cd /repo && go test -vet=off -count=1 ./...", "source_commits": [], "add_only": True},
    "engines": [{"name": "gosym", "path": "/verif/engine", "serves_properties": [c['property_id'] for c in checks],
                 "kind_free_text": "symbolic interpreter for go/ssa (x/tools v0.29.0) producing SMT-LIB2 for z3 5.1.0; counterexamples are replayed against the natively compiled code through go test -overlay"}],
    "checks": checks,
    "notes": "See DESIGN.md. Exit codes: 0 held on everything explored, 1 confirmed violation (VIOLATION line), 2 broken/vacuous check.",
    "not_applicable": na,
}
json.dump(m, open(os.path.join(root, 'MANIFEST.json'), 'w'), indent=1)
print("checks:", [c['property_id'] for c in checks])
