#!/usr/bin/env python3
"""reseed.py [--tier quick|thorough] <seed id>...: re-run the property's check against an already validated seeded change
(scratch worktree of /repo HEAD + patch, scratch copy of /verif) and update seeded/<id>/meta.json['check']."""
import json, os, signal, subprocess, sys, time
ENV = dict(os.environ, GOFLAGS='-mod=mod', GOPROXY='off', GOSUMDB='off', GOTOOLCHAIN='local')
args = sys.argv[1:]
tier = 'quick'
if args and args[0] == '--tier':
    tier = args[1]; args = args[2:]
jobs = os.environ.get('SEED_J', '8')
for sid in args:
    dest = f'/verif/seeded/{sid}'
    meta = json.load(open(f'{dest}/meta.json'))
    prop = meta['property']
    wt, vf = f'/tmp/seedrun-{sid}', f'/tmp/seedverif-{sid}'
    subprocess.run(f'git -C /repo worktree remove --force {wt}', shell=True, capture_output=True)
    subprocess.run(f'git -C /repo worktree add -q --detach {wt} HEAD', shell=True, capture_output=True)
    subprocess.run(f'rm -rf {vf}; mkdir -p {vf}; rsync -a --exclude .git --exclude work --exclude replays --exclude seeded /verif/ {vf}/', shell=True)
    try:
        p = subprocess.run(f'git apply {dest}/patch.diff', cwd=wt, shell=True, capture_output=True, text=True)
        if p.returncode != 0:
            print(f'[{sid}] patch does not apply: {p.stderr[:200]}'); continue
        t0 = time.time()
        cmd = f'./bin/gosym -repo {wt} -verif {vf} -spec {vf}/checks/{prop.lower()}.json -tier {tier} -j {jobs}'
        proc = subprocess.Popen(cmd, cwd=vf, env=ENV, shell=True, stdout=subprocess.PIPE, stderr=subprocess.STDOUT, text=True, start_new_session=True)
        try:
            outc, _ = proc.communicate(timeout=int(os.environ.get('SEED_TIMEOUT', '1800')))
            rcc = proc.returncode
        except subprocess.TimeoutExpired:
            os.killpg(proc.pid, signal.SIGKILL)
            outc, _ = proc.communicate()
            rcc = 124
        lines = [l.replace(vf, '/verif') for l in outc.splitlines() if l.startswith(('VIOLATION', '  harness=', 'BROKEN', 'UNCONFIRMED', 'INCONCLUSIVE'))]
        meta['check'] = {'cmd': f'./check {prop} --tier {tier}  (run as: gosym -repo <scratch worktree of /repo HEAD + patch> -verif <scratch copy of /verif>)',
                         'exit': rcc, 'wall_s': round(time.time() - t0, 1), 'detected': rcc == 1, 'lines': lines[:12],
                         'verif_commit': subprocess.run('git -C /verif rev-parse --short HEAD', shell=True, capture_output=True, text=True).stdout.strip()}
        print(f'[{sid}] check exit={rcc} detected={rcc==1} in {time.time()-t0:.0f}s')
        for l in lines[:6]: print('   ', l[:220])
        json.dump(meta, open(f'{dest}/meta.json', 'w'), indent=1)
    finally:
        subprocess.run(f'git -C /repo worktree remove --force {wt}; rm -rf {vf}', shell=True, capture_output=True)
